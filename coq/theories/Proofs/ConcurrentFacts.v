From Coq Require Import List NArith Bool Lia Arith.
From Dznpy Require Import Sem.Concurrent.
Import ListNotations.

Definition pc_of (s : st) (c : cid) : option pc := option_map at_ (nth_error (clients s) c).

Lemma nth_error_upd_same {A} (l : list A) i x y : nth_error l i = Some y -> nth_error (upd l i x) i = Some x.
Proof.
  revert i; induction l as [|a l IH]; intros [|i] H; cbn in *; try discriminate; auto.
Qed.
Lemma nth_error_upd_other {A} (l : list A) i j x : i <> j -> nth_error (upd l i x) j = nth_error l j.
Proof.
  revert i j; induction l as [|a l IH]; intros [|i] [|j] H; cbn in *; try congruence; auto.
Qed.

(* pc of every client after one client's record was replaced *)
Lemma pc_upd s c cl new d : nth_error (clients s) c = Some cl ->
  option_map at_ (nth_error (upd (clients s) c new) d) = if Nat.eqb c d then Some (at_ new) else pc_of s d.
Proof.
  intros H. destruct (Nat.eqb c d) eqn:E.
  - apply Nat.eqb_eq in E. subst. now rewrite (nth_error_upd_same _ _ _ _ H).
  - apply Nat.eqb_neq in E. now rewrite nth_error_upd_other.
Qed.

(* ---------- the invariant of every reachable state ---------- *)

Record Inv (s : st) : Prop := {
  locked_holds : forall c o g, pc_of s c = Some (Locked o g) -> mutex s = Some (TClient c);
  holder_locked : forall c, mutex s = Some (TClient c) -> exists o g, pc_of s c = Some (Locked o g);
  dispatcher_lock : out_pending s = true <-> mutex s = Some TDispatcher;
  queued_blocked : forall c o, In (c, o) (queue s) -> pc_of s c = Some (Blocked o);
  blocked_queued : forall c o, pc_of s c = Some (Blocked o) -> In (c, o) (queue s);
  queue_nodup : NoDup (map fst (queue s)) }.

Lemma init_inv progs : Inv (init progs).
Proof.
  assert (P : forall c, pc_of (init progs) c = None \/ pc_of (init progs) c = Some Ready).
  { intros c. unfold pc_of, init; cbn. destruct (nth_error (map _ progs) c) eqn:N; [|now left].
    apply nth_error_In in N. apply in_map_iff in N as [p [<- _]]. now right. }
  constructor; cbn.
  - intros c o g H. destruct (P c) as [E|E]; rewrite E in H; discriminate.
  - discriminate.
  - split; discriminate.
  - intros c o [].
  - intros c o H. destruct (P c) as [E|E]; rewrite E in H; discriminate.
  - constructor.
Qed.

Lemma nodup_snoc {A} (l : list A) x : NoDup l -> ~ In x l -> NoDup (l ++ [x]).
Proof.
  induction l as [|a l IH]; intros Hn Hx; cbn; [constructor; [intros []|constructor]|].
  inversion Hn; subst. constructor.
  - rewrite in_app_iff. intros [H|[H|[]]]; [contradiction|]. subst. apply Hx. now left.
  - apply IH; [assumption|]. intros H. apply Hx. now right.
Qed.

Lemma in_map_fst {A B} (l : list (A * B)) a b : In (a, b) l -> In a (map fst l).
Proof. intros H. apply (in_map fst) in H. exact H. Qed.

Lemma step_inv s l s' : Inv s -> step s l = Some s' -> Inv s'.
Proof.
  intros [I1 I2 I3 I4 I5 I6] Hs. destruct l as [c| |[c|]|c| ]; cbn in Hs.
  - (* LStart: client c posts its closure and blocks *)
    destruct (nth_error (clients s) c) as [[[|o rest] [| | |]]|] eqn:N; try discriminate. inversion Hs; subst; clear Hs.
    assert (Pc : pc_of s c = Some Ready) by (unfold pc_of; now rewrite N).
    constructor; cbn [clients queue mutex out_pending delivered selected claimed]; unfold pc_of; cbn [clients].
    + intros d o' g H. rewrite (pc_upd _ _ _ _ _ N) in H. destruct (Nat.eqb c d) eqn:E; [discriminate|]. eapply I1; eauto.
    + intros d Hm. destruct (I2 d Hm) as [o' [g H]]. exists o', g. rewrite (pc_upd _ _ _ _ _ N).
      destruct (Nat.eqb c d) eqn:E; [|exact H]. apply Nat.eqb_eq in E; subst. rewrite Pc in H. discriminate.
    + exact I3.
    + intros d o' Hin. rewrite (pc_upd _ _ _ _ _ N). apply in_app_iff in Hin as [Hin|[Hin|[]]].
      * destruct (Nat.eqb c d) eqn:E; [|now apply I4]. apply Nat.eqb_eq in E; subst. apply I4 in Hin. rewrite Pc in Hin. discriminate.
      * inversion Hin; subst. now rewrite Nat.eqb_refl.
    + intros d o' H. rewrite (pc_upd _ _ _ _ _ N) in H. apply in_app_iff. destruct (Nat.eqb c d) eqn:E.
      * apply Nat.eqb_eq in E; subst. inversion H; subst. right. now left.
      * left. now apply I5.
    + rewrite map_app. cbn. apply nodup_snoc; [assumption|]. intros H. apply in_map_iff in H as [[c' o'] [E H]]. cbn in E; subst.
      apply I4 in H. rewrite Pc in H. discriminate.
  - (* LDisp: the dispatcher runs the head closure *)
    destruct (out_pending s) eqn:OP; [discriminate|]. destruct (queue s) as [|[c o] q] eqn:Q; [discriminate|].
    destruct (match o with OClaim => if claimed s then (false, true) else (true, true) | ORelease => (false, false) | OUse => (false, claimed s) end) as [g cl'].
    destruct (nth_error (clients s) c) as [cl|] eqn:N; [|discriminate]. inversion Hs; subst; clear Hs.
    assert (Pc : pc_of s c = Some (Blocked o)) by (apply I4; now left).
    cbn in I6. inversion I6 as [|? ? Hnotin Hnd]; subst.
    constructor; cbn [clients queue mutex out_pending delivered selected claimed]; unfold pc_of; cbn [clients].
    + intros d o' g' H. rewrite (pc_upd _ _ _ _ _ N) in H. destruct (Nat.eqb c d) eqn:E; [discriminate|]. eapply I1; eauto.
    + intros d Hm. destruct (I2 d Hm) as [o' [g' H]]. exists o', g'. rewrite (pc_upd _ _ _ _ _ N).
      destruct (Nat.eqb c d) eqn:E; [|exact H]. apply Nat.eqb_eq in E; subst. rewrite Pc in H. discriminate.
    + exact I3.
    + intros d o' Hin. rewrite (pc_upd _ _ _ _ _ N). destruct (Nat.eqb c d) eqn:E.
      * apply Nat.eqb_eq in E; subst. exfalso. apply Hnotin. eapply in_map_fst; eauto.
      * apply I4. now right.
    + intros d o' H. rewrite (pc_upd _ _ _ _ _ N) in H. destruct (Nat.eqb c d) eqn:E; [discriminate|].
      apply I5 in H. destruct H as [H|H]; [|assumption]. inversion H; subst. rewrite Nat.eqb_refl in E. discriminate.
    + assumption.
  - (* LLock by a client *)
    destruct (mutex s) eqn:M; [discriminate|].
    destruct (nth_error (clients s) c) as [[p [| |o g|]]|] eqn:N; try discriminate.
    destruct (needs_lock o g); [|discriminate]. inversion Hs; subst; clear Hs.
    assert (Pc : pc_of s c = Some (Replied o g)) by (unfold pc_of; now rewrite N).
    constructor; cbn [clients queue mutex out_pending delivered selected claimed]; unfold pc_of; cbn [clients].
    + intros d o' g' H. rewrite (pc_upd _ _ _ _ _ N) in H. destruct (Nat.eqb c d) eqn:E.
      * apply Nat.eqb_eq in E. now subst.
      * apply I1 in H. congruence.
    + intros d Hm. inversion Hm; subst. exists o, g. rewrite (pc_upd _ _ _ _ _ N). now rewrite Nat.eqb_refl.
    + split; intros H; [|discriminate]. apply I3 in H. congruence.
    + intros d o' Hin. rewrite (pc_upd _ _ _ _ _ N). destruct (Nat.eqb c d) eqn:E; [|now apply I4].
      apply Nat.eqb_eq in E; subst. apply I4 in Hin. rewrite Pc in Hin. discriminate.
    + intros d o' H. rewrite (pc_upd _ _ _ _ _ N) in H. destruct (Nat.eqb c d) eqn:E; [discriminate|]. now apply I5.
    + assumption.
  - (* LLock by the dispatcher (entering an out-event lambda) *)
    destruct (mutex s) eqn:M; [discriminate|]. destruct (out_pending s) eqn:OP; [discriminate|]. inversion Hs; subst; clear Hs.
    constructor; cbn [clients queue mutex out_pending delivered selected claimed]; auto.
    + intros d o g H. apply I1 in H. congruence.
    + intros d H. discriminate.
    + split; reflexivity.
  - (* LFinish *)
    destruct (nth_error (clients s) c) as [[p [| |o g|o g]]|] eqn:N; try discriminate.
    + destruct (needs_lock o g); [discriminate|]. inversion Hs; subst; clear Hs.
      assert (Pc : pc_of s c = Some (Replied o g)) by (unfold pc_of; now rewrite N).
      constructor; cbn [clients queue mutex out_pending delivered selected claimed]; unfold pc_of; cbn [clients].
      * intros d o' g' H. rewrite (pc_upd _ _ _ _ _ N) in H. destruct (Nat.eqb c d) eqn:E; [discriminate|]. eapply I1; eauto.
      * intros d Hm. destruct (I2 d Hm) as [o' [g' H]]. exists o', g'. rewrite (pc_upd _ _ _ _ _ N).
        destruct (Nat.eqb c d) eqn:E; [|exact H]. apply Nat.eqb_eq in E; subst. rewrite Pc in H. discriminate.
      * exact I3.
      * intros d o' Hin. rewrite (pc_upd _ _ _ _ _ N). destruct (Nat.eqb c d) eqn:E; [|now apply I4].
        apply Nat.eqb_eq in E; subst. apply I4 in Hin. rewrite Pc in Hin. discriminate.
      * intros d o' H. rewrite (pc_upd _ _ _ _ _ N) in H. destruct (Nat.eqb c d) eqn:E; [discriminate|]. now apply I5.
      * assumption.
    + inversion Hs; subst; clear Hs.
      assert (Pc : pc_of s c = Some (Locked o g)) by (unfold pc_of; now rewrite N).
      pose proof (I1 c o g Pc) as Hm.
      constructor; cbn [clients queue mutex out_pending delivered selected claimed]; unfold pc_of; cbn [clients].
      * intros d o' g' H. rewrite (pc_upd _ _ _ _ _ N) in H. destruct (Nat.eqb c d) eqn:E; [discriminate|].
        apply I1 in H. rewrite Hm in H. inversion H; subst. rewrite Nat.eqb_refl in E. discriminate.
      * discriminate.
      * split; intros H; [|discriminate]. apply I3 in H. congruence.
      * intros d o' Hin. rewrite (pc_upd _ _ _ _ _ N). destruct (Nat.eqb c d) eqn:E; [|now apply I4].
        apply Nat.eqb_eq in E; subst. apply I4 in Hin. rewrite Pc in Hin. discriminate.
      * intros d o' H. rewrite (pc_upd _ _ _ _ _ N) in H. destruct (Nat.eqb c d) eqn:E; [discriminate|]. now apply I5.
      * assumption.
  - (* LOut *)
    destruct (mutex s) as [[|]|] eqn:M; try discriminate. inversion Hs; subst; clear Hs.
    constructor; cbn [clients queue mutex out_pending delivered selected claimed]; auto.
    + intros d o g H. apply I1 in H. congruence.
    + discriminate.
    + split; discriminate.
Qed.

Lemma run_inv ls : forall s s', Inv s -> run s ls = Some s' -> Inv s'.
Proof.
  induction ls as [|l ls IH]; intros s s' Hi Hr; cbn in Hr; [inversion Hr; now subst|].
  destruct (step s l) as [s1|] eqn:S; [|discriminate]. eapply IH; [eapply step_inv; eauto|exact Hr].
Qed.

(* ---------- mutual exclusion ---------- *)

(* in every reachable state at most one thread is inside the section protected by MutexWrapped, and it is the mutex holder *)
Theorem mutual_exclusion progs ls s : run (init progs) ls = Some s ->
  forall c d o g o' g', pc_of s c = Some (Locked o g) -> pc_of s d = Some (Locked o' g') -> c = d.
Proof.
  intros Hr c d o g o' g' Hc Hd. pose proof (run_inv ls _ _ (init_inv progs) Hr) as I.
  pose proof (locked_holds _ I _ _ _ Hc) as H1. pose proof (locked_holds _ I _ _ _ Hd) as H2. congruence.
Qed.

Theorem dispatcher_excludes_clients progs ls s : run (init progs) ls = Some s -> out_pending s = true ->
  forall c o g, pc_of s c <> Some (Locked o g).
Proof.
  intros Hr Hp c o g Hc. pose proof (run_inv ls _ _ (init_inv progs) Hr) as I.
  apply (dispatcher_lock _ I) in Hp. apply (locked_holds _ I) in Hc. congruence.
Qed.

(* the selection is read and written only by the thread that holds the lock: it changes in LFinish steps of a Locked client only *)
Theorem selection_written_under_lock s l s' : step s l = Some s' -> selected s' <> selected s ->
  exists c o g, l = LFinish c /\ pc_of s c = Some (Locked o g).
Proof.
  intros Hs Hne. destruct l as [c| |[c|]|c| ]; cbn in Hs.
  - destruct (nth_error (clients s) c) as [[[|o rest] [| | |]]|]; try discriminate. inversion Hs; subst. cbn in Hne. congruence.
  - destruct (out_pending s); [discriminate|]. destruct (queue s) as [|[c o] q]; [discriminate|].
    destruct (match o with OClaim => if claimed s then (false, true) else (true, true) | ORelease => (false, false) | OUse => (false, claimed s) end).
    destruct (nth_error (clients s) c); [|discriminate]. inversion Hs; subst. cbn in Hne. congruence.
  - destruct (mutex s); [discriminate|]. destruct (nth_error (clients s) c) as [[p [| |o g|]]|]; try discriminate.
    destruct (needs_lock o g); [|discriminate]. inversion Hs; subst. cbn in Hne. congruence.
  - destruct (mutex s); [discriminate|]. destruct (out_pending s); [discriminate|]. inversion Hs; subst. cbn in Hne. congruence.
  - destruct (nth_error (clients s) c) as [[p [| |o g|o g]]|] eqn:N; try discriminate.
    + destruct (needs_lock o g); [discriminate|]. inversion Hs; subst. cbn in Hne. congruence.
    + exists c, o, g. split; [reflexivity|]. unfold pc_of. now rewrite N.
  - destruct (mutex s) as [[|]|]; try discriminate. inversion Hs; subst. cbn in Hne. congruence.
Qed.

(* an out-event goes to exactly the client selected at the moment the dispatcher holds the lock - or to nobody *)
Theorem delivery_follows_selection s s' : step s LOut = Some s' -> delivered s' = delivered s ++ [selected s] /\ selected s' = selected s.
Proof. cbn. destruct (mutex s) as [[|]|]; try discriminate. intros H; inversion H; subst. cbn. auto. Qed.

(* ---------- deadlock freedom: as long as a client is unfinished, some thread can take a step ---------- *)


Theorem progress s : Inv s -> forallb finished (clients s) = false -> exists l s', step s l = Some s'.
Proof.
  intros I Hnf.
  (* if the dispatcher is inside an out-event lambda it can finish it *)
  destruct (out_pending s) eqn:OP.
  { exists LOut. cbn. apply (dispatcher_lock _ I) in OP. rewrite OP. eauto. }
  (* if a client holds the lock it can finish its Select/Deselect *)
  destruct (mutex s) as [[c|]|] eqn:M.
  { destruct (holder_locked _ I c M) as [o [g H]]. exists (LFinish c). cbn. unfold pc_of in H.
    destruct (nth_error (clients s) c) as [[p a]|]; [|discriminate]. cbn in H. inversion H; subst. eauto. }
  { apply (dispatcher_lock _ I) in M. congruence. }
  (* nobody holds the lock *)
  destruct (queue s) as [|[c o] q] eqn:Q.
  - assert (exists c cl, nth_error (clients s) c = Some cl /\ finished cl = false) as (c & cl & Hn & Hf).
    { clear -Hnf. induction (clients s) as [|x xs IH]; cbn in Hnf; [discriminate|].
      destruct (finished x) eqn:E; cbn in Hnf.
      - destruct (IH Hnf) as (c & cl & H1 & H2). exists (S c), cl; auto.
      - exists 0, x; auto. }
    destruct cl as [p a]. destruct a as [|o|o g|o g].
    + destruct p as [|o rest]; [cbn in Hf; discriminate|]. exists (LStart c). cbn. rewrite Hn. eauto.
    + exfalso. assert (H : pc_of s c = Some (Blocked o)) by (unfold pc_of; now rewrite Hn).
      apply (blocked_queued _ I) in H. rewrite Q in H. destruct H.
    + destruct (needs_lock o g) eqn:NL.
      * exists (LLock (TClient c)). cbn. rewrite M, Hn, NL. eauto.
      * exists (LFinish c). cbn. rewrite Hn, NL. eauto.
    + exfalso. assert (H : pc_of s c = Some (Locked o g)) by (unfold pc_of; now rewrite Hn).
      apply (locked_holds _ I) in H. congruence.
  - exists LDisp. cbn. rewrite OP, Q.
    assert (H : pc_of s c = Some (Blocked o)) by (apply (queued_blocked _ I); rewrite Q; now left).
    unfold pc_of in H. destruct (nth_error (clients s) c) as [cl|]; [|discriminate].
    destruct o; [destruct (claimed s)| |]; eauto.
Qed.

Theorem deadlock_free progs ls s : run (init progs) ls = Some s -> forallb finished (clients s) = false -> exists l s', step s l = Some s'.
Proof. intros Hr. apply progress. eapply run_inv; [apply init_inv|exact Hr]. Qed.

(* ---------- REFUTATIONS of "a granted client receives the out-events until it itself releases, whatever others do" ---------- *)

Definition deliveries (progs : list (list cop)) (ls : list label) : option (list (option cid)) := option_map delivered (run (init progs) ls).

(* K3': A's forwarded release has run in the component, B claims and is selected, then A's delayed Deselect wipes B *)
Example late_deselect_refutes :
  deliveries [[OClaim; ORelease]; [OClaim]]
    [LStart 0; LDisp; LLock (TClient 0); LFinish 0;          (* A claims, is granted, selects itself *)
     LStart 0; LDisp;                                        (* A's release ran in the component; A is not yet at Deselect *)
     LStart 1; LDisp; LLock (TClient 1); LFinish 1;          (* B claims, is granted, Select(B) *)
     LLock (TClient 0); LFinish 0;                           (* A's Deselect(A) resets the selection *)
     LLock TDispatcher; LOut]                                (* the component raises an out-event for its holder B *)
  = Some [None].
Proof. vm_compute. reflexivity. Qed.

(* K4: an out-event raised after the grant but before the claiming thread reaches Select is dropped *)
Example grant_select_window_refutes :
  deliveries [[OClaim]] [LStart 0; LDisp; LLock TDispatcher; LOut; LLock (TClient 0); LFinish 0] = Some [None].
Proof. vm_compute. reflexivity. Qed.

(* K3, sequential: a client that does not hold the claim releases *)
Example nonholder_release_refutes :
  deliveries [[OClaim]; [ORelease]]
    [LStart 0; LDisp; LLock (TClient 0); LFinish 0; LStart 1; LDisp; LLock (TClient 1); LFinish 1; LLock TDispatcher; LOut] = Some [None].
Proof. vm_compute. reflexivity. Qed.

(* and the well-behaved schedule: the holder does receive the event *)
Example holder_receives :
  deliveries [[OClaim; ORelease]; [OClaim]]
    [LStart 0; LDisp; LLock (TClient 0); LFinish 0; LStart 1; LDisp; LFinish 1; LLock TDispatcher; LOut] = Some [Some 0].
Proof. vm_compute. reflexivity. Qed.

(* ---------- the schedule generators only produce executions of the model ---------- *)

Lemma run_app s l1 l2 : run s (l1 ++ l2) = match run s l1 with Some s' => run s' l2 | None => None end.
Proof. revert s; induction l1 as [|l r IH]; intros s; cbn; [reflexivity|]. destruct (step s l); [apply IH|reflexivity]. Qed.

Lemma run_trace_run s ls : option_map snd (run_trace s ls) = run s ls.
Proof.
  revert s; induction ls as [|l r IH]; intros s; cbn; [reflexivity|]. destruct (step s l) as [s'|]; [|reflexivity].
  rewrite <- IH. destruct (run_trace s' r) as [[os s'']|]; reflexivity.
Qed.

Lemma sample_valid rs : forall outs s, run s (sample rs outs s) <> None.
Proof.
  induction rs as [|r rs IH]; intros outs s; cbn [sample]; [cbn [run]; discriminate|].
  destruct (enabled outs s) as [|l0 en']; [cbn [run]; discriminate|].
  set (l := nth _ _ _). destruct (step s l) as [s'|] eqn:S; [|cbn [run]; discriminate]. cbn [run]. rewrite S. apply IH.
Qed.

Lemma all_schedules_valid fuel : forall outs s ls, In ls (all_schedules fuel outs s) -> run s ls <> None.
Proof.
  induction fuel as [|f IH]; intros outs s ls Hin; cbn [all_schedules] in Hin.
  - destruct Hin as [<-|[]]. cbn [run]. discriminate.
  - destruct (enabled outs s) as [|l0 en'] eqn:E; [destruct Hin as [<-|[]]; cbn [run]; discriminate|].
    apply in_flat_map in Hin as [l [_ Hin]]. destruct (step s l) as [s'|] eqn:S; [|destruct Hin].
    apply in_map_iff in Hin as [t [<- Hin]]. cbn [run]. rewrite S. eapply IH; eauto.
Qed.

Lemma all_coarse_valid fuel : forall outs s ls, In ls (all_coarse fuel outs s) -> run s ls <> None.
Proof.
  induction fuel as [|f IH]; intros outs s ls Hin; cbn [all_coarse] in Hin.
  - destruct Hin as [<-|[]]. cbn [run]. discriminate.
  - destruct (moves outs s) as [|m0 ms'] eqn:E; [destruct Hin as [<-|[]]; cbn [run]; discriminate|].
    apply in_flat_map in Hin as [m [_ Hin]]. destruct (run s (expand m s)) as [s'|] eqn:S; [|destruct Hin].
    apply in_map_iff in Hin as [t [<- Hin]]. rewrite run_app, S. eapply IH; eauto.
Qed.

(* a maximal schedule of all_schedules that stops early has finished every client (no deadlock before the programs are done) *)
Lemma enabled_nil_finished outs s : Inv s -> enabled outs s = [] -> outs > 0 -> forallb finished (clients s) = true.
Proof.
  intros I E Ho. destruct (forallb finished (clients s)) eqn:F; [reflexivity|]. exfalso.
  destruct (progress s I F) as (l & s' & S).
  assert (Hc : In l (candidates s)).
  { unfold candidates. destruct l as [c| |[c|]|c| ]; cbn; auto.
    all: right; right; right; apply in_flat_map; exists c; (split; [|cbn; auto]); apply in_seq; split; [lia|]; cbn;
      cbn in S; destruct (nth_error (clients s) c) eqn:N; try (apply nth_error_Some; congruence).
    all: try discriminate; destruct (mutex s); discriminate. }
  assert (Hf : In l (enabled outs s)).
  { unfold enabled. apply filter_In. split; [exact Hc|]. rewrite S. cbn. destruct l as [c| |[c|]|c| ]; cbn; auto.
    destruct outs; [lia|reflexivity]. }
  rewrite E in Hf. destruct Hf.
Qed.
