(* JSON values as orjson hands them to the parser (Python dict/list/str/int/float/bool/None). *)
From Coq Require Import List NArith ZArith Bool.
From Dznpy Require Import Base.PyStr.
Import ListNotations.

Inductive json :=
| JNull
| JBool (b : bool)
| JInt (z : Z)
| JFloat                       (* any float: only its type matters to the parser *)
| JStr (x : str)
| JArr (l : list json)
| JObj (l : list (str * json)).  (* keys are unique (the harness serialises Python dicts) *)

Fixpoint assoc (k : str) (l : list (str * json)) : option json :=
  match l with
  | [] => None
  | (k', v) :: t => if str_eqb k' k then Some v else assoc k t
  end.

Fixpoint jdepth (j : json) : nat :=
  match j with
  | JArr l => S (fold_right (fun x acc => Nat.max (jdepth x) acc) O l)
  | JObj l => S (fold_right (fun kv acc => Nat.max (jdepth (snd kv)) acc) O l)
  | _ => O
  end.

(* value == 'text' for a Python str literal *)
Definition jstr_is (j : json) (x : str) : bool := match j with JStr y => str_eqb y x | _ => false end.
