(* Exceptions as values. *)
From Coq Require Import List.
Import ListNotations.

Inductive err :=
| DznJsonError | NamespaceIdsTypeError | AdvShellError | MultiClientCfgError | FindError | CppGenError
| TypeError_ | ValueError_
| Internal.   (* KeyError / AttributeError / IndexError / RecursionError: never a documented outcome *)

Inductive result (A : Type) := Ok (a : A) | Err (e : err).
Arguments Ok {A} _.
Arguments Err {A} _.

Definition bind {A B} (r : result A) (f : A -> result B) : result B :=
  match r with Ok a => f a | Err e => Err e end.
Notation "'do' x <- r ; k" := (bind r (fun x => k)) (at level 200, x pattern, r at level 100, k at level 200).

Definition is_ok {A} (r : result A) : bool := match r with Ok _ => true | Err _ => false end.

Fixpoint mapM {A B} (f : A -> result B) (l : list A) : result (list B) :=
  match l with
  | [] => Ok []
  | a :: t => do b <- f a; do bs <- mapM f t; Ok (b :: bs)
  end.

Definition err_code (e : err) : nat :=
  match e with
  | DznJsonError => 1 | NamespaceIdsTypeError => 2 | AdvShellError => 3 | MultiClientCfgError => 4
  | FindError => 5 | CppGenError => 6 | TypeError_ => 7 | ValueError_ => 8 | Internal => 9
  end.
