(* The wire format between the Python harness and the model: integers and lists.
   Decoding of arguments and encoding of results is done here, in Gallina, so that the
   OCaml driver is a generic reader/printer and the same entry point (Dispatch.run) is used by the
   extracted binary and by `Eval vm_compute` inside coqc. *)
From Coq Require Import List NArith ZArith Bool.
From Dznpy Require Import Base.PyStr.
Import ListNotations.

Inductive sexp := SI (z : Z) | SL (l : list sexp).

Definition enc_str (x : str) : sexp := SL (map (fun c => SI (Z.of_N c)) x).
Definition enc_strs (l : list str) : sexp := SL (map enc_str l).
Definition enc_bool (b : bool) : sexp := SI (if b then 1 else 0)%Z.
Definition enc_nat (n : nat) : sexp := SI (Z.of_nat n).
Definition enc_opt {A} (f : A -> sexp) (o : option A) : sexp :=
  match o with None => SL [] | Some a => SL [f a] end.

Definition dec_char (x : sexp) : char := match x with SI z => Z.to_N z | SL _ => 0%N end.
Definition dec_str (x : sexp) : str := match x with SL l => map dec_char l | SI _ => [] end.
Definition dec_strs (x : sexp) : list str := match x with SL l => map dec_str l | SI _ => [] end.
Definition dec_bool (x : sexp) : bool := match x with SI z => negb (Z.eqb z 0) | SL _ => false end.
Definition dec_nat (x : sexp) : nat := match x with SI z => Z.to_nat z | SL _ => O end.
Definition dec_Z (x : sexp) : Z := match x with SI z => z | SL _ => 0%Z end.
Definition dec_list {A} (f : sexp -> A) (x : sexp) : list A := match x with SL l => map f l | SI _ => [] end.
Definition dec_opt {A} (f : sexp -> A) (x : sexp) : option A :=
  match x with SL [a] => Some (f a) | _ => None end.

Definition tag (x : sexp) : Z := match x with SL (SI z :: _) => z | _ => (-1)%Z end.
Definition args (x : sexp) : list sexp := match x with SL (_ :: l) => l | _ => [] end.
Definition arg (n : nat) (x : sexp) : sexp := nth n (args x) (SL []).
