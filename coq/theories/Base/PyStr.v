(* Python str as a list of Unicode code points, with the str methods dznpy uses.
   Definitions only; facts are in Proofs/PyStrFacts.v so that the model keeps running
   when a proof breaks. *)
From Coq Require Import List NArith Bool String Ascii.
Import ListNotations.
Open Scope N_scope.
Delimit Scope string_scope with string.

Definition char := N.
Definition str := list char.

Definition LF : char := 10.
Definition CR : char := 13.
Definition SP : char := 32.
Definition TABc : char := 9.

(* ASCII template literals are written as Coq strings *)
Fixpoint lit (x : string) : str :=
  match x with
  | EmptyString => []
  | String a r => N_of_ascii a :: lit r
  end.

(* short name used by the template-heavy model files *)
Definition L (x : string) : str := lit x.

Definition is_nil {A} (l : list A) : bool := match l with [] => true | _ => false end.

Fixpoint str_eqb (a b : str) : bool :=
  match a, b with
  | [], [] => true
  | x :: a', y :: b' => N.eqb x y && str_eqb a' b'
  | _, _ => false
  end.

Fixpoint strs_eqb (a b : list str) : bool :=
  match a, b with
  | [], [] => true
  | x :: a', y :: b' => str_eqb x y && strs_eqb a' b'
  | _, _ => false
  end.

(* str.splitlines(): the ten line boundaries of CPython's unicode type; \r\n is one boundary *)
Definition is_linebreak (c : char) : bool :=
  (N.leb 10 c && N.leb c 13) || (N.leb 28 c && N.leb c 30) || N.eqb c 133 || N.eqb c 8232 || N.eqb c 8233.

Fixpoint splitlines (x : str) : list str :=
  match x with
  | [] => []
  | c :: t =>
    if is_linebreak c then
      [] :: (if N.eqb c 13
             then match t with
                  | d :: t' => if N.eqb d 10 then splitlines t' else splitlines t
                  | [] => splitlines t
                  end
             else splitlines t)
    else match splitlines t with
         | [] => [[c]]
         | l :: ls => (c :: l) :: ls
         end
  end.

(* str.isspace() per code point (Py_UNICODE_ISSPACE): 29 code points *)
Definition is_space (c : char) : bool :=
  (N.leb 9 c && N.leb c 13) || (N.leb 28 c && N.leb c 32) || N.eqb c 133 || N.eqb c 160 ||
  N.eqb c 5760 || (N.leb 8192 c && N.leb c 8202) || N.eqb c 8232 || N.eqb c 8233 ||
  N.eqb c 8239 || N.eqb c 8287 || N.eqb c 12288.

Fixpoint lstrip (x : str) : str :=
  match x with
  | [] => []
  | c :: t => if is_space c then lstrip t else x
  end.

Definition rstrip (x : str) : str := rev (lstrip (rev x)).
Definition strip (x : str) : str := lstrip (rstrip x).

(* truthiness of line.strip() *)
Definition blank (x : str) : bool := forallb is_space x.

Fixpoint join (sep : str) (l : list str) : str :=
  match l with
  | [] => []
  | [x] => x
  | x :: t => x ++ sep ++ join sep t
  end.

Fixpoint startswith (p x : str) : bool :=
  match p, x with
  | [], _ => true
  | a :: p', b :: x' => N.eqb a b && startswith p' x'
  | _, [] => false
  end.

(* x.split(sep) for a non-empty separator: always at least one piece *)
Fixpoint drop {A} (n : nat) (l : list A) : list A :=
  match n, l with
  | O, _ => l
  | S n', [] => []
  | S n', _ :: t => drop n' t
  end.

(* structural recursion on the input; `skip` counts the remaining characters of a separator
   occurrence that has just been matched *)
Fixpoint split_go (sep : str) (skip : nat) (cur : str) (x : str) : list str :=
  match x with
  | [] => [rev cur]
  | c :: t =>
    match skip with
    | S k => split_go sep k cur t
    | O => if startswith sep x
           then rev cur :: split_go sep (List.length sep - 1) [] t
           else split_go sep 0 (c :: cur) t
    end
  end.

Definition split (sep x : str) : list str := split_go sep 0 [] x.

Fixpoint contains (sep x : str) : bool :=
  match x with
  | [] => is_nil sep
  | _ :: t => startswith sep x || contains sep t
  end.

(* f'{x: <n}' : left aligned, padded with spaces to width n *)
Definition ljust (n : nat) (x : str) : str := x ++ repeat SP (n - List.length x).

(* ASCII upper() of one character; the harness asserts port names are ASCII where this is used *)
Definition upper_ascii (c : char) : char :=
  if N.leb 97 c && N.leb c 122 then c - 32 else c.

Definition cap_first (x : str) : str :=
  match x with [] => [] | c :: t => upper_ascii c :: t end.

Definition lower_ascii (c : char) : char :=
  if N.leb 65 c && N.leb c 90 then c + 32 else c.

(* decimal rendering of a natural number, for str(int) of small non-negative ints *)
Fixpoint dec_aux (fuel : nat) (n : N) (acc : str) : str :=
  match fuel with
  | O => acc
  | S f => let d := N.modulo n 10 in
           let q := N.div n 10 in
           if N.eqb q 0 then (48 + d) :: acc else dec_aux f q ((48 + d) :: acc)
  end.
Definition dec (n : N) : str := dec_aux (S (N.to_nat (N.log2 n))) n [].
