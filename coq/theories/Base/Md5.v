(* MD5 (RFC 1321) over byte lists and UTF-8 encoding of code points: the content hash of a generated file.
   Words are N values below 2^32; every operation reduces explicitly. *)
From Coq Require Import List NArith Bool.
From Dznpy Require Import Base.PyStr.
Import ListNotations.
Open Scope N_scope.

Definition M32 : N := 4294967296.
Definition add32 (a b : N) : N := (a + b) mod M32.
Definition not32 (x : N) : N := M32 - 1 - (x mod M32).
Definition rotl32 (x c : N) : N := N.lor (N.shiftl x c mod M32) (N.shiftr x (32 - c)).

Definition Ktab : list N := [3614090360; 3905402710; 606105819; 3250441966; 4118548399; 1200080426; 2821735955; 4249261313; 1770035416; 2336552879; 4294925233; 2304563134; 1804603682; 4254626195; 2792965006; 1236535329; 4129170786; 3225465664; 643717713; 3921069994; 3593408605; 38016083; 3634488961; 3889429448; 568446438; 3275163606; 4107603335; 1163531501; 2850285829; 4243563512; 1735328473; 2368359562; 4294588738; 2272392833; 1839030562; 4259657740; 2763975236; 1272893353; 4139469664; 3200236656; 681279174; 3936430074; 3572445317; 76029189; 3654602809; 3873151461; 530742520; 3299628645; 4096336452; 1126891415; 2878612391; 4237533241; 1700485571; 2399980690; 4293915773; 2240044497; 1873313359; 4264355552; 2734768916; 1309151649; 4149444226; 3174756917; 718787259; 3951481745].
Definition Stab : list N := [7; 12; 17; 22; 7; 12; 17; 22; 7; 12; 17; 22; 7; 12; 17; 22; 5; 9; 14; 20; 5; 9; 14; 20; 5; 9; 14; 20; 5; 9; 14; 20; 4; 11; 16; 23; 4; 11; 16; 23; 4; 11; 16; 23; 4; 11; 16; 23; 6; 10; 15; 21; 6; 10; 15; 21; 6; 10; 15; 21; 6; 10; 15; 21].

Definition nthN (l : list N) (i : nat) : N := nth i l 0.

Record md5st := { sa : N; sb : N; sc : N; sd : N }.
Definition md5_init : md5st := {| sa := 1732584193; sb := 4023233417; sc := 2562383102; sd := 271733878 |}.

Definition round_fn (i : nat) (b c d : N) : N * nat :=
  if Nat.ltb i 16 then (N.lor (N.land b c) (N.land (not32 b) d), i)
  else if Nat.ltb i 32 then (N.lor (N.land d b) (N.land (not32 d) c), Nat.modulo (5 * i + 1) 16)
  else if Nat.ltb i 48 then (N.lxor (N.lxor b c) d, Nat.modulo (3 * i + 5) 16)
  else (N.lxor c (N.lor b (not32 d)), Nat.modulo (7 * i) 16).

Definition md5_step (m : list N) (s : md5st) (i : nat) : md5st :=
  let '(f, g) := round_fn i (sb s) (sc s) (sd s) in
  let f' := add32 (add32 (add32 f (sa s)) (nthN Ktab i)) (nthN m g) in
  {| sa := sd s; sd := sc s; sc := sb s; sb := add32 (sb s) (rotl32 f' (nthN Stab i)) |}.

Definition md5_block (s : md5st) (m : list N) : md5st :=
  let r := fold_left (md5_step m) (seq 0 64) s in
  {| sa := add32 (sa s) (sa r); sb := add32 (sb s) (sb r); sc := add32 (sc s) (sc r); sd := add32 (sd s) (sd r) |}.

(* little-endian words *)
Definition le_word (b0 b1 b2 b3 : N) : N := b0 + 256 * b1 + 65536 * b2 + 16777216 * b3.
Fixpoint words_of (bs : list N) : list N :=
  match bs with
  | b0 :: b1 :: b2 :: b3 :: r => le_word b0 b1 b2 b3 :: words_of r
  | _ => []
  end.
Definition le_bytes (n : nat) (x : N) : list N := map (fun k => (N.shiftr x (8 * N.of_nat k)) mod 256) (seq 0 n).

Fixpoint chunks (fuel : nat) (n : nat) (l : list N) : list (list N) :=
  match fuel with
  | O => []
  | S f => match l with [] => [] | _ => firstn n l :: chunks f n (skipn n l) end
  end.

Definition md5_pad (msg : list N) : list N :=
  let len := List.length msg in
  let r := Nat.modulo (len + 1) 64 in
  let zeros := if Nat.leb r 56 then (56 - r)%nat else (120 - r)%nat in
  msg ++ [128] ++ repeat 0 zeros ++ le_bytes 8 (8 * N.of_nat len).

Definition md5 (msg : list N) : list N :=
  let p := md5_pad msg in
  let s := fold_left md5_block (map words_of (chunks (S (List.length p)) 64 p)) md5_init in
  le_bytes 4 (sa s) ++ le_bytes 4 (sb s) ++ le_bytes 4 (sc s) ++ le_bytes 4 (sd s).

Definition hex_digit (n : N) : N := if n <? 10 then 48 + n else 87 + n.
Definition hex_of_bytes (bs : list N) : str := flat_map (fun b => [hex_digit (b / 16); hex_digit (b mod 16)]) bs.

(* str.encode('utf-8') for code points outside the surrogate range (Python raises UnicodeEncodeError on lone surrogates) *)
Definition utf8_char (c : N) : list N :=
  if c <? 128 then [c]
  else if c <? 2048 then [192 + c / 64; 128 + c mod 64]
  else if c <? 65536 then [224 + c / 4096; 128 + (c / 64) mod 64; 128 + c mod 64]
  else [240 + c / 262144; 128 + (c / 4096) mod 64; 128 + (c / 64) mod 64; 128 + c mod 64].
Definition utf8 (s : str) : list N := flat_map utf8_char s.
Definition is_surrogate (c : N) : bool := (55296 <=? c) && (c <? 57344).

(* GeneratedContent.hash *)
Definition content_hash (s : str) : str := hex_of_bytes (md5 (utf8 s)).
