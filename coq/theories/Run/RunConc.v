(* Wire entry points for the interleaving model (710-712) and the MutexWrapped model (720). *)
From Coq Require Import List NArith ZArith Bool.
From Dznpy Require Import Base.Sexp Sem.Concurrent Sem.MutexWrapped.
Import ListNotations.
Open Scope Z_scope.

Definition dec_cop (x : sexp) : cop := match dec_Z x with 0 => OClaim | 1 => ORelease | _ => OUse end.
Definition enc_cop (o : cop) : sexp := SI (match o with OClaim => 0 | ORelease => 1 | OUse => 2 end).
Definition dec_label (x : sexp) : label :=
  match x with
  | SL [SI 0; c] => LStart (dec_nat c)
  | SL [SI 1] => LDisp
  | SL [SI 2; c] => LLock (TClient (dec_nat c))
  | SL [SI 3] => LLock TDispatcher
  | SL [SI 4; c] => LFinish (dec_nat c)
  | _ => LOut
  end.
Definition enc_label (l : label) : sexp :=
  match l with
  | LStart c => SL [SI 0; enc_nat c]
  | LDisp => SL [SI 1]
  | LLock (TClient c) => SL [SI 2; enc_nat c]
  | LLock TDispatcher => SL [SI 3]
  | LFinish c => SL [SI 4; enc_nat c]
  | LOut => SL [SI 5]
  end.
Definition enc_obs (o : obs) : sexp :=
  match o with
  | ODisp c o g => SL [SI 0; enc_nat c; enc_cop o; enc_bool g]
  | ODeliver t => SL [SI 1; enc_opt enc_nat t]
  end.
Definition dec_progs (x : sexp) : list (list cop) := dec_list (dec_list dec_cop) x.

Definition dec_mop (x : sexp) : mop :=
  match x with
  | SL [SI 0; t] => MAcquire (dec_nat t)
  | SL [SI 1; t] => MReset (dec_nat t)
  | SL [SI 2; t] => MExit (dec_nat t)
  | SL [SI 3; t; v] => MWrite (dec_nat t) (dec_nat v)
  | SL [_; t] => MRead (dec_nat t)
  | _ => MRead O
  end.

Definition run_conc (t : Z) (a : list sexp) : sexp :=
  match t, a with
  | 710, [progs; ls] =>
      match run_trace (init (dec_progs progs)) (dec_list dec_label ls) with
      | Some (os, s) => SL [SI 1; SL (map enc_obs os); enc_opt enc_nat (selected s); enc_bool (forallb finished (clients s))]
      | None => SL [SI 0]
      end
  | 711, [progs; outs; rs] => SL (map enc_label (sample (dec_list dec_nat rs) (dec_nat outs) (init (dec_progs progs))))
  | 712, [progs; outs; fuel; coarse] =>
      let s := init (dec_progs progs) in
      SL (map (fun ls => SL (map enc_label ls))
              (if dec_bool coarse then all_coarse (dec_nat fuel) (dec_nat outs) s else all_schedules (dec_nat fuel) (dec_nat outs) s))
  | 720, [n; ops] =>
      SL (map (fun r => SL [enc_opt (enc_opt enc_nat) (fst r); enc_bool (snd r)]) (fst (mrun (minit (dec_nat n)) (dec_list dec_mop ops))))
  | _, _ => SL [SI (-1)]
  end.
