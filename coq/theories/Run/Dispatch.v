(* Single entry point used by the extracted binary and by `Eval vm_compute` case files. *)
From Coq Require Import List NArith ZArith Bool.
From Dznpy Require Import Base.PyStr Base.Sexp Run.RunText Run.RunScope Run.RunPorts Run.RunJson Run.RunCpp Run.RunBuild Run.RunConc.
Import ListNotations.
Open Scope Z_scope.

Definition dispatch (x : sexp) : sexp :=
  let t := tag x in
  let a := args x in
  if (100 <=? t) && (t <? 200) then run_text t a
  else if (200 <=? t) && (t <? 300) then run_scope t a
  else if (300 <=? t) && (t <? 400) then run_ports t a
  else if (t =? 403) then run_dznfile t a
  else if (400 <=? t) && (t <? 500) then run_json t a
  else if (500 <=? t) && (t <? 600) then run_cpp t a
  else if (t =? 601) then run_build2 t a
  else if (t =? 602) || (t =? 603) then run_build3 t a
  else if (600 <=? t) && (t <? 700) then run_build t a
  else if (t =? 700) then run_selector t a
  else if (710 <=? t) && (t <? 730) then run_conc t a
  else SL [SI (-1)].

Definition run_all (l : list sexp) : list sexp := map dispatch l.
