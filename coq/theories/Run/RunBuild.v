(* Wire-level entry points for support files and the advanced-shell builder *)
From Coq Require Import List NArith ZArith Bool.
From Dznpy Require Import Base.PyStr Base.Sexp Base.Result Model.TextGen Model.Scoping Model.CppGen Model.SupportFiles
  Run.RunText Run.RunScope.
Import ListNotations.
Open Scope Z_scope.

Definition dec_sft (x : sexp) : sf_template :=
  match x with SL [h; b] => {| sft_header := dec_strs h; sft_body := dec_strs b |} | _ => {| sft_header := []; sft_body := [] |} end.

Definition dec_templates (x : sexp) : templates :=
  match x with
  | SL [v; c; a; b; d; e; f; g] =>
    {| tp_version := dec_str v; tp_copyright := dec_str c; tp_strict_port := dec_sft a; tp_ilog := dec_sft b;
       tp_misc_utils := dec_sft d; tp_meta_helpers := dec_sft e; tp_multi_client_selector := dec_sft f; tp_mutex_wrapped := dec_sft g |}
  | _ => {| tp_version := []; tp_copyright := []; tp_strict_port := dec_sft (SL []); tp_ilog := dec_sft (SL []);
            tp_misc_utils := dec_sft (SL []); tp_meta_helpers := dec_sft (SL []); tp_multi_client_selector := dec_sft (SL []);
            tp_mutex_wrapped := dec_sft (SL []) |}
  end.

Definition enc_gfile (g : gfile) : sexp := SL [enc_str (g_name g); enc_str (g_contents g); enc_opt enc_ids (g_namespace g)].

Definition run_build (t : Z) (a : list sexp) : sexp :=
  match t, a with
  | 600, [tp; pre] => SL (map enc_gfile (support_files (dec_templates tp) (dec_opt dec_ids pre)))
  | _, _ => SL [SI (-1)]
  end.

(* ---------- full builds: JSON document + configuration -> eight files ---------- *)
From Dznpy Require Import Base.Json Model.PortSelection Model.Ast Model.JsonAst Model.Builder Run.RunPorts Run.RunJson.

Definition dec_mc (x : sexp) : mc_cfg :=
  match x with
  | SL [p; c; r; rel] => {| mcc_port := dec_str p; mcc_claim := dec_str c; mcc_reply := dec_ids r; mcc_release := dec_str rel |}
  | _ => {| mcc_port := []; mcc_claim := []; mcc_reply := []; mcc_release := [] |}
  end.

Definition dec_ports_cfg (x : sexp) : ports_cfg :=
  match x with
  | SL [ps; pm; rs; rm; mc] => {| pc_psts := dec_psel ps; pc_pmts := dec_psel pm; pc_rsts := dec_psel rs; pc_rmts := dec_psel rm;
                                  pc_mc := dec_opt dec_mc mc |}
  | _ => {| pc_psts := PW WNone; pc_pmts := PW WNone; pc_rsts := PW WNone; pc_rmts := PW WNone; pc_mc := None |}
  end.

Definition dec_config (x : sexp) : config :=
  match x with
  | SL [fn; sfx; enc; pc; o; cr; pre; creator] =>
    {| cf_filename := dec_str fn; cf_suffix := dec_str sfx; cf_encapsulee := dec_ids enc; cf_ports := dec_ports_cfg pc;
       cf_origin := if dec_bool o then OCreate else OImport; cf_copyright := dec_content cr;
       cf_sf_prefix := dec_opt dec_ids pre; cf_creator := dec_content creator |}
  | _ => {| cf_filename := []; cf_suffix := []; cf_encapsulee := []; cf_ports := dec_ports_cfg (SL []); cf_origin := OCreate;
            cf_copyright := CNone; cf_sf_prefix := None; cf_creator := CNone |}
  end.

Definition run_build2 (t : Z) (a : list sexp) : sexp :=
  match t, a with
  | 601, [tp; doc; cfg] =>
      match process (dec_json doc) with
      | Err e => SL [SI (100 + Z.of_nat (err_code e))]
      | Ok fc => enc_res (fun l => SL (map enc_gfile l)) (configure_and_build (dec_templates tp) fc (dec_config cfg))
      end
  | _, _ => SL [SI (-1)]
  end.

(* ---------- the resolved plan of a build (op 602) ---------- *)
From Dznpy Require Import Model.Plan.

Definition enc_rkind (r : rkind) : sexp :=
  match r with RVoid => SL [SI 0] | RBool => SL [SI 1] | REnum en => SL [SI 2; enc_ids (en_fqn en); enc_list enc_json (en_fields en)]
  | RInt => SL [SI 3] | ROther => SL [SI 4] end.

Definition enc_plan_event (fc : file_contents) (itf : interface_d) (e : event) : sexp :=
  SL [enc_str (e_name e); SI (match e_dir e with EIn => 0 | EOut => 1 end); enc_rkind (ret_kind fc itf e);
      enc_list (fun f => SL [enc_str (f_name f); SI (match f_dir f with FIn => 0 | FOut => 1 | FInOut => 2 end);
                             enc_opt enc_str (formal_type fc itf f)]) (e_formals e)].

Definition enc_plan_port (fc : file_contents) (p : port_info) : sexp :=
  SL [enc_str (po_name (pi_port p)); SI (match po_dir (pi_port p) with PProvides => 0 | PRequires => 1 end);
      enc_bool (po_injected (pi_port p));
      enc_opt (fun i => SL [enc_ids (it_fqn i); enc_list (enc_plan_event fc i) (it_events i);
                            enc_list (fun t => match t with TEnum en => SL [enc_ids (en_fqn en); enc_list enc_json (en_fields en)]
                                                          | TSubInt s => SL [enc_ids (su_fqn s)] end) (it_types i)]) (pi_itf p);
      enc_opt (fun sm => SL [enc_sem (fst sm);
                             enc_opt (fun m => SL [enc_str (e_name (mx_claim m)); enc_ids (mx_reply m); enc_str (e_name (mx_release m))]) (snd sm)])
              (pi_exposed p)].

Definition run_build3 (t : Z) (a : list sexp) : sexp :=
  match t, a with
  | 603, [contents] => enc_str (Md5.content_hash (dec_str contents))
  | 602, [doc; cfg] =>
      match process (dec_json doc) with
      | Err e => SL [SI (100 + Z.of_nat (err_code e))]
      | Ok fc => enc_res (fun pl => SL [enc_ids (pl_enc_fqn pl); enc_ids (pl_scope pl); enc_list (enc_plan_port fc) (pl_ports pl)])
                         (make_plan fc (dec_config cfg))
      end
  | _, _ => SL [SI (-1)]
  end.

(* ---------- the selector model (op 700): registered clients + history -> effects by the model and by the specification ---------- *)
From Dznpy Require Import Sem.Selector.

Definition dec_op (x : sexp) : op :=
  match x with
  | SL [SI 0; c; g] => OClaim (dec_str c) (dec_bool g)
  | SL [SI 1; c] => ORelease (dec_str c)
  | SL [SI 2; c; ev] => OOther (dec_str c) (dec_str ev)
  | SL [SI 3; ev] => OOut (dec_str ev)
  | _ => OOut []
  end.
Definition enc_effect (e : effect) : sexp :=
  match e with
  | EForwarded c ev => SL [SI 0; enc_str c; enc_str ev]
  | EDelivered ev t => SL [SI 1; enc_str ev; enc_opt enc_str t]
  end.

Definition run_selector (t : Z) (a : list sexp) : sexp :=
  match t, a with
  | 700, [cl; SL ops] =>
      let s0 := {| clients := dec_strs cl; selected := None; final := true |} in
      let h := map dec_op ops in
      SL [enc_list enc_effect (snd (run s0 h)); enc_list enc_effect (spec_run None h); enc_bool (conformant (dec_strs cl) None h)]
  | _, _ => SL [SI (-1)]
  end.
