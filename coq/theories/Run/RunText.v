(* Wire-level entry points for the text kernel (misc_utils / text_gen / Comment). *)
From Coq Require Import List NArith ZArith Bool.
From Dznpy Require Import Base.PyStr Base.Sexp Model.TextGen.
Import ListNotations.
Open Scope Z_scope.

Definition dec_tb (x : sexp) : tblock :=
  match x with
  | SL [h; l] => {| hdr := dec_strs h; lns := dec_strs l |}
  | _ => {| hdr := []; lns := [] |}
  end.

Fixpoint dec_content (x : sexp) : content :=
  match x with
  | SL (SI t :: a) =>
    match t, a with
    | 0, _ => CNone
    | 1, [v] => CStr (dec_str v)
    | 2, [v; b] => COther (dec_str v) (dec_bool b)
    | 3, l => CList ((fix go (l : list sexp) := match l with [] => [] | y :: r => dec_content y :: go r end) l)
    | 4, l => CDict ((fix go (l : list sexp) := match l with [] => [] | y :: r => dec_content y :: go r end) l)
    | 5, [tb] => CBlock (dec_tb tb)
    | 6, [l] => CComment (dec_strs l)
    | _, _ => CNone
    end
  | _ => CNone
  end.

Definition dec_indcfg (x : sexp) : indcfg :=
  match x with
  | SL [i; n; b] =>
    {| i_indentor := if dec_bool i then Tab else Spaces;
       i_spaces := dec_nat n;
       i_bullet := match b with
                   | SL [m; g] => Some (if dec_bool m then BFirst else BAll, dec_str g)
                   | _ => None
                   end |}
  | _ => default_ind
  end.

Definition enc_tb (t : tblock) : sexp := SL [enc_strs (hdr t); enc_strs (lns t); enc_str (str_tb t)].
Definition enc_otb (o : option tblock) : sexp := enc_opt enc_tb o.

(* one step of a TextBlock history; `add` yields a new object which the history continues with *)
Definition tb_step (t : tblock) (op : sexp) : tblock :=
  match op with
  | SL [SI 1; c] => append t (dec_content c)
  | SL [SI 2; c] => add t (dec_content c)
  | SL [SI 3; e] => trim (dec_bool e) t
  | SL [SI 4; cfg] => indent (dec_indcfg cfg) t
  | SL [SI 5; l] => set_lines t (dec_strs l)
  | _ => t
  end.

Fixpoint tb_run (t : tblock) (ops : list sexp) : list sexp :=
  match ops with
  | [] => []
  | op :: r => let t' := tb_step t op in enc_tb t' :: tb_run t' r
  end.

Fixpoint filter_range (f : char -> bool) (lo : N) (count : nat) : list sexp :=
  match count with
  | O => []
  | S k => (if f lo then [SI (Z.of_N lo)] else []) ++ filter_range f (N.succ lo) k
  end.

Definition run_text (t : Z) (a : list sexp) : sexp :=
  match t, a with
  | 100, [sk; c] => enc_strs (flatten (dec_bool sk) (dec_content c))
  | 101, [c; h] => enc_tb (mk (dec_content c) (dec_content h))
  | 102, [c; h; SL ops] => let t0 := mk (dec_content c) (dec_content h) in SL (enc_tb t0 :: tb_run t0 ops)
  | 103, [cfg; c] => enc_strs (to_list (dec_indcfg cfg) (dec_content c))
  | 104, [cfg; c] => enc_str (to_str (dec_indcfg cfg) (dec_content c))
  | 105, [c; ap] => enc_otb (chunk (dec_content c) (dec_content ap))
  | 106, [p; c; e; ap; aon] =>
      enc_otb (cond_chunk (dec_content p) (dec_content c) (dec_content e) (dec_content ap) (dec_bool aon))
  | 107, [l] => enc_str (str_comment (dec_strs l))
  | 108, [c; more] =>
      let ls := appended (dec_content c) in
      let ext := ls ++ appended (CStr (dec_str more)) in
      SL [enc_strs ls; enc_str (str_comment ls); enc_strs ext; enc_str (str_comment ext);
          enc_str (str_tb (mk1 (CList [CComment ls]))); enc_strs (lns (mk1 (CComment ls)))]
  | 110, [x] => enc_strs (splitlines (dec_str x))
  | 111, [lo; n] => SL (filter_range is_space (Z.to_N (dec_Z lo)) (dec_nat n))
  | 112, [lo; n] => SL (filter_range is_linebreak (Z.to_N (dec_Z lo)) (dec_nat n))
  | 113, [x] => enc_str (strip (dec_str x))
  | 114, [sep; x] => enc_strs (split (dec_str sep) (dec_str x))
  | _, _ => SL [SI (-1)]
  end.
