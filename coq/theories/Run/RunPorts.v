(* Wire-level entry points for port selection (C03) *)
From Coq Require Import List NArith ZArith Bool.
From Dznpy Require Import Base.PyStr Base.Sexp Base.Result Model.PortSelection Run.RunScope.
Import ListNotations.
Open Scope Z_scope.

Definition dec_psel (x : sexp) : psel :=
  match x with
  | SL [SI 0] => PW WRemaining
  | SL [SI 1] => PW WAll
  | SL [SI 2] => PW WNone
  | SL [SI 3; l] => PS (dec_strs l)
  | _ => PW WNone
  end.

Definition enc_sem (s : semantics) : sexp := SI (match s with STS => 0 | MTS => 1 end).
Definition enc_dict (d : list (str * semantics)) : sexp := SL (map (fun kv => SL [enc_str (fst kv); enc_sem (snd kv)]) d).
Definition enc_unit (_ : unit) : sexp := SL [].

Definition dec_port (x : sexp) : port :=
  match x with
  | SL [n; d; i] => {| p_name := dec_str n; p_dir := if dec_bool d then Requires else Provides; p_injected := dec_bool i |}
  | _ => {| p_name := []; p_dir := Provides; p_injected := false |}
  end.

Definition run_ports (t : Z) (a : list sexp) : sexp :=
  match t, a with
  | 300, [p] => enc_res enc_unit (psel_ok (dec_psel p))
  | 301, [s; m] => enc_res enc_unit (mk_semcfg (dec_psel s) (dec_psel m))
  | 302, [s; m; e] => enc_res enc_dict (do _ <- mk_semcfg (dec_psel s) (dec_psel m); side_match (dec_psel s) (dec_psel m) (dec_strs e))
  | 303, [ps; pm; rs; rm; pp; rp] =>
      enc_res enc_dict (do _ <- mk_semcfg (dec_psel ps) (dec_psel pm); do _ <- mk_semcfg (dec_psel rs) (dec_psel rm);
                        do _ <- portscfg_ok (dec_psel ps) (dec_psel pm);
                        cfg_match (dec_psel ps) (dec_psel pm) (dec_psel rs) (dec_psel rm) (dec_strs pp) (dec_strs rp))
  | 304, [ps; pm; rs; rm; SL ports] =>
      enc_res (fun l => SL (map (fun ps => SL [enc_str (p_name (fst ps)); enc_sem (snd ps)]) l))
              (configure (dec_psel ps) (dec_psel pm) (dec_psel rs) (dec_psel rm) (map dec_port ports))
  | _, _ => SL [SI (-1)]
  end.
