(* Wire-level entry points for the JSON-AST parser (C05, C15, C16) *)
From Coq Require Import List NArith ZArith Bool.
From Dznpy Require Import Base.PyStr Base.Sexp Base.Result Base.Json Model.Scoping Model.Ast Model.JsonAst
  Model.ParserObj Run.RunScope.
Import ListNotations.
Open Scope Z_scope.

Fixpoint dec_json (x : sexp) : json :=
  match x with
  | SL (SI t :: a) =>
    match t, a with
    | 0, _ => JNull
    | 1, [b] => JBool (dec_bool b)
    | 2, [z] => JInt (dec_Z z)
    | 3, _ => JFloat
    | 4, [v] => JStr (dec_str v)
    | 5, l => JArr ((fix go (l : list sexp) := match l with [] => [] | y :: r => dec_json y :: go r end) l)
    | 6, l => JObj ((fix go (l : list sexp) := match l with
                                               | [] => []
                                               | SL [kx; v] :: r => (dec_str kx, dec_json v) :: go r
                                               | _ :: r => go r
                                               end) l)
    | _, _ => JNull
    end
  | _ => JNull
  end.

Fixpoint enc_json (j : json) : sexp :=
  match j with
  | JNull => SL [SI 0]
  | JBool b => SL [SI 1; enc_bool b]
  | JInt z => SL [SI 2; SI z]
  | JFloat => SL [SI 3]
  | JStr x => SL [SI 4; enc_str x]
  | JArr l => SL (SI 5 :: map enc_json l)
  | JObj l => SL (SI 6 :: map (fun kv => SL [enc_str (fst kv); enc_json (snd kv)]) l)
  end.

Definition enc_list {A} (f : A -> sexp) (l : list A) : sexp := SL (map f l).

Definition enc_formal (f : formal) : sexp :=
  SL [enc_str (f_name f); enc_ids (f_type f); SI (match f_dir f with FIn => 0 | FOut => 1 | FInOut => 2 end)].
Definition enc_event (e : event) : sexp :=
  SL [enc_str (e_name e); enc_ids (e_ret e); enc_list enc_formal (e_formals e); SI (match e_dir e with EIn => 0 | EOut => 1 end)].
Definition enc_port (p : aport) : sexp :=
  SL [enc_str (po_name p); enc_ids (po_type p); SI (match po_dir p with PProvides => 0 | PRequires => 1 end);
      enc_list enc_formal (po_formals p); enc_bool (po_injected p)].
Definition enc_enum (e : enum_d) : sexp :=
  SL [enc_ids (en_fqn e); enc_ids (en_parent e); enc_ids (en_name e); enc_list enc_json (en_fields e)].
Definition enc_subint (s : subint_d) : sexp :=
  SL [enc_ids (su_fqn s); enc_ids (su_parent s); enc_ids (su_name s); enc_json (su_from s); enc_json (su_to s)].
Definition enc_extern (e : extern_d) : sexp :=
  SL [enc_ids (ex_fqn e); enc_ids (ex_parent e); enc_ids (ex_name e); enc_str (ex_value e)].
Definition enc_type (t : type_d) : sexp :=
  match t with TEnum e => SL [SI 0; enc_enum e] | TSubInt s => SL [SI 1; enc_subint s] end.
Definition enc_interface (i : interface_d) : sexp :=
  SL [enc_ids (it_fqn i); enc_ids (it_parent i); enc_ids (it_name i); enc_list enc_type (it_types i); enc_list enc_event (it_events i)].
Definition enc_component (c : component_d) : sexp :=
  SL [enc_ids (co_fqn c); enc_ids (co_parent c); enc_ids (co_name c); enc_list enc_port (co_ports c)].
Definition enc_endpoint (e : endpoint) : sexp := SL [enc_str (ep_port e); enc_opt enc_str (ep_instance e)].
Definition enc_system (s : system_d) : sexp :=
  SL [enc_ids (sy_fqn s); enc_ids (sy_parent s); enc_ids (sy_name s); enc_list enc_port (sy_ports s);
      enc_list (fun i => SL [enc_str (i_name i); enc_ids (i_type i)]) (sy_instances s);
      enc_list (fun b => SL [enc_endpoint (b_left b); enc_endpoint (b_right b)]) (sy_bindings s)].

Definition enc_fc (fc : file_contents) : sexp :=
  SL [enc_list enc_component (fc_components fc); enc_list enc_enum (fc_enums fc); enc_list enc_extern (fc_externs fc);
      enc_list enc_str (fc_filenames fc); enc_list enc_component (fc_foreigns fc); enc_list enc_str (fc_imports fc);
      enc_list enc_interface (fc_interfaces fc); enc_list enc_subint (fc_subints fc); enc_list enc_system (fc_systems fc)].

Definition dec_pop (x : sexp) : pop :=
  match x with
  | SL [SI 0; d] => PNew (dec_opt dec_json d)
  | SL [SI 1; i; d] => PLoad (dec_nat i) (dec_json d)
  | SL [SI 2; i] => PProcess (dec_nat i)
  | _ => PNew None
  end.

Definition run_json (t : Z) (a : list sexp) : sexp :=
  match t, a with
  | 400, [j] => enc_res enc_fc (process (dec_json j))
  | 401, [SL ops] => SL (map (enc_opt (enc_res enc_fc)) (run_history [] (map dec_pop ops)))
  | 402, [j] => enc_res enc_event (parse_event (dec_json j))
  | _, _ => SL [SI (-1)]
  end.

(* ---------- abstract Dezyne files (specification side of C05) ---------- *)
From Dznpy Require Import Spec.DznFile.

Definition dec_fdir (x : sexp) : fdir := match dec_Z x with 0 => FIn | 1 => FOut | _ => FInOut end.
Definition dec_dformal (x : sexp) : dformal :=
  match x with SL [n; t; d] => {| df_name := dec_str n; df_type := dec_ids t; df_dir := dec_fdir d |}
  | _ => {| df_name := []; df_type := []; df_dir := FIn |} end.
Definition dec_devent (x : sexp) : devent :=
  match x with
  | SL [n; d; r; fs] => {| de_name := dec_str n; de_dir := if dec_bool d then EOut else EIn; de_ret := dec_ids r;
                           de_formals := dec_list dec_dformal fs |}
  | _ => {| de_name := []; de_dir := EIn; de_ret := []; de_formals := [] |} end.
Definition dec_dport (x : sexp) : dport :=
  match x with
  | SL [n; t; d; i] => {| dp_name := dec_str n; dp_type := dec_ids t; dp_dir := if dec_bool d then PRequires else PProvides;
                          dp_injected := dec_bool i |}
  | _ => {| dp_name := []; dp_type := []; dp_dir := PProvides; dp_injected := false |} end.
Definition dec_dtype (x : sexp) : dtype :=
  match x with
  | SL [SI 0; n; fs] => DEnum (dec_ids n) (dec_strs fs)
  | SL [SI 1; n; lo; hi] => DSubInt (dec_ids n) (dec_Z lo) (dec_Z hi)
  | _ => DEnum [] [] end.
Definition dec_ditype (x : sexp) : ditype :=
  match x with SL [SI 2; c] => ITOther (dec_str c) | _ => ITType (dec_dtype x) end.
Definition dec_endpoint (x : sexp) : dendpoint :=
  match x with SL [p; i] => (dec_str p, dec_opt dec_str i) | _ => ([], None) end.

Fixpoint dec_ddecl (x : sexp) : ddecl :=
  match x with
  | SL [SI 0; n; SL body] => DNs (dec_ids n) ((fix go (l : list sexp) := match l with [] => [] | y :: r => dec_ddecl y :: go r end) body)
  | SL [SI 1; n; ts; es] => DItf (dec_ids n) (dec_list dec_ditype ts) (dec_list dec_devent es)
  | SL [SI 2; n; ps] => DComp (dec_ids n) (dec_list dec_dport ps)
  | SL [SI 3; n; ps] => DForeign (dec_ids n) (dec_list dec_dport ps)
  | SL [SI 4; n; ps; is_; bs] =>
    DSys (dec_ids n) (dec_list dec_dport ps)
         (dec_list (fun i => match i with SL [a; b] => (dec_str a, dec_ids b) | _ => ([], []) end) is_)
         (dec_list (fun b => match b with SL [l; r] => (dec_endpoint l, dec_endpoint r) | _ => (([], None), ([], None)) end) bs)
  | SL [SI 5; t] => DType (dec_dtype t)
  | SL [SI 6; n; v] => DExtern (dec_ids n) (dec_str v)
  | SL [SI 7; n] => DImport (dec_str n)
  | SL [SI 8; n] => DFile (dec_str n)
  | SL [SI 9; c] => DUnknown (dec_str c)
  | SL [SI 10; j] => DJunk (dec_json j)
  | _ => DJunk JNull
  end.

Definition run_dznfile (t : Z) (a : list sexp) : sexp :=
  match t, a with
  | 403, [ex; wc; SL f] =>
      let df := map dec_ddecl f in
      SL [enc_json (to_json (dec_bool ex) (dec_bool wc) df); enc_fc (flatten_decls df); enc_bool (wf_file df)]
  | _, _ => SL [SI (-1)]
  end.
