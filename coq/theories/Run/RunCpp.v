(* Wire-level entry points for cpp_gen (C20) *)
From Coq Require Import List NArith ZArith Bool.
From Dznpy Require Import Base.PyStr Base.Sexp Base.Result Model.TextGen Model.Scoping Model.CppGen Run.RunText Run.RunScope.
Import ListNotations.
Open Scope Z_scope.

Definition dec_fqn (x : sexp) : fqn :=
  match x with SL [i; r] => {| q_ids := dec_ids i; q_root := dec_bool r |} | _ => {| q_ids := []; q_root := false |} end.
Definition dec_postfix (x : sexp) : postfix := match dec_Z x with 0 => PNone | 1 => PRef | _ => PPtr end.
Definition dec_typedesc (x : sexp) : typedesc :=
  match x with
  | SL [f; ta; p; c; d] => {| t_fqn := dec_fqn f; t_targ := dec_opt dec_fqn ta; t_postfix := dec_postfix p;
                              t_const := dec_bool c; t_default := dec_opt dec_str d |}
  | _ => {| t_fqn := dec_fqn (SL []); t_targ := None; t_postfix := PNone; t_const := false; t_default := None |}
  end.
Definition dec_param (x : sexp) : param :=
  match x with SL [t; n] => {| pa_type := dec_typedesc t; pa_name := dec_str n |}
  | _ => {| pa_type := dec_typedesc (SL []); pa_name := [] |} end.
Definition dec_fprefix (x : sexp) : fprefix := match dec_Z x with 0 => FMember | 1 => FVirtual | _ => FStatic end.
Definition dec_function (x : sexp) : function :=
  match x with
  | SL [r; n; ps; pf; cav; ov; ini; c; sc] =>
    {| fn_ret := dec_typedesc r; fn_name := dec_str n; fn_params := dec_list dec_param ps; fn_prefix := dec_fprefix pf;
       fn_cav := dec_str cav; fn_override := dec_bool ov; fn_init := dec_str ini; fn_contents := dec_content c;
       fn_scope := dec_opt dec_str sc |}
  | _ => {| fn_ret := dec_typedesc (SL []); fn_name := []; fn_params := []; fn_prefix := FMember; fn_cav := [];
            fn_override := false; fn_init := []; fn_contents := CNone; fn_scope := None |}
  end.
Definition dec_constructor (x : sexp) : constructor :=
  match x with
  | SL [sc; ex; ps; ini; mil; c] =>
    {| c_scope := dec_str sc; c_explicit := dec_bool ex; c_params := dec_list (dec_opt dec_param) ps;
       c_init := dec_str ini; c_mil := dec_strs mil; c_contents := dec_content c |}
  | _ => {| c_scope := []; c_explicit := false; c_params := []; c_init := []; c_mil := []; c_contents := CNone |}
  end.
Definition dec_destructor (x : sexp) : destructor :=
  match x with
  | SL [sc; ov; ini; c] => {| d_scope := dec_str sc; d_override := dec_bool ov; d_init := dec_str ini; d_contents := dec_content c |}
  | _ => {| d_scope := []; d_override := false; d_init := []; d_contents := CNone |}
  end.
Definition dec_access (x : sexp) : access :=
  match dec_Z x with 0 => APublic | 1 => AProtected | 2 => APrivate | _ => AAnonymous end.

Definition pair_str (a b : str) : sexp := SL [enc_str a; enc_str b].

Definition run_cpp (t : Z) (a : list sexp) : sexp :=
  match t, a with
  | 500, [f] => enc_str (str_fqn (dec_fqn f))
  | 501, [ty] => enc_str (str_type (dec_typedesc ty))
  | 502, [p] => pair_str (param_decl (dec_param p)) (param_def (dec_param p))
  | 503, [f] => let fn := dec_function f in
                enc_res (fun _ => pair_str (fn_as_decl fn) (fn_as_def fn)) (function_ok fn)
  | 504, [c] => let ct := dec_constructor c in
                enc_res (fun _ => pair_str (ctor_as_decl ct) (ctor_as_def ct)) (constructor_ok ct)
  | 505, [d] => let dt := dec_destructor d in pair_str (dtor_as_decl dt) (dtor_as_def dt)
  | 506, [ty; n] => enc_str (str_member_var (dec_typedesc ty) (dec_str n))
  | 507, [c; n; tb] => enc_str (str_struct (dec_bool c) (dec_str n) (dec_tb tb))
  | 508, [i; tb] => enc_str (str_namespace (dec_ids i) (dec_tb tb))
  | 509, [ac; tb] => enc_str (str_access_section (dec_access ac) (dec_tb tb))
  | 510, [sy; l] => enc_str (str_includes (dec_bool sy) (dec_strs l))
  | _, _ => SL [SI (-1)]
  end.
