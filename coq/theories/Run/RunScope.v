(* Wire-level entry points for scoping / lookup (C14) *)
From Coq Require Import List NArith ZArith Bool.
From Dznpy Require Import Base.PyStr Base.Sexp Base.Result Model.Scoping.
Import ListNotations.
Open Scope Z_scope.

Definition enc_ids (i : ids) : sexp := enc_strs i.
Definition dec_ids (x : sexp) : ids := dec_strs x.

Definition enc_res {A} (f : A -> sexp) (r : result A) : sexp :=
  match r with
  | Ok a => SL [SI 0; f a]
  | Err e => SL [SI (Z.of_nat (err_code e))]
  end.

Definition dec_idarg (x : sexp) : idarg :=
  match x with
  | SL [SI 0; i] => AIds (dec_ids i)
  | SL [SI 1; l] => AStrList (dec_strs l)
  | SL [SI 2; v] => AStr (dec_str v)
  | _ => AOtherArg
  end.

Definition dec_kind (z : Z) : dkind :=
  match z with 0 => KComponent | 1 => KEnum | 2 => KExtern | 3 => KForeign | 4 => KInterface | 5 => KSubInt | _ => KSystem end.

Definition dec_decls (k : dkind) (x : sexp) : list decl :=
  dec_list (fun d => match d with
                     | SL [SI u; f] => {| d_kind := k; d_fqn := dec_ids f; d_uid := Z.to_N u |}
                     | _ => {| d_kind := k; d_fqn := []; d_uid := 0%N |}
                     end) x.

Definition dec_containers (x : sexp) : containers :=
  match x with
  | SL [a; b; c; d; e; f; g] =>
    {| c_components := dec_decls KComponent a; c_enums := dec_decls KEnum b; c_externs := dec_decls KExtern c;
       c_foreigns := dec_decls KForeign d; c_interfaces := dec_decls KInterface e;
       c_subints := dec_decls KSubInt f; c_systems := dec_decls KSystem g |}
  | _ => {| c_components := []; c_enums := []; c_externs := []; c_foreigns := []; c_interfaces := [];
            c_subints := []; c_systems := [] |}
  end.

Definition enc_uids (l : list decl) : sexp := SL (map (fun d => SI (Z.of_N (d_uid d))) l).

Definition run_scope (t : Z) (a : list sexp) : sexp :=
  match t, a with
  | 200, [x] => enc_bool (valid_id (dec_str x))
  | 201, [x] => enc_res enc_ids (namespaceids_t (dec_idarg x))
  | 202, [i; sc] => SL (map enc_ids (scope_resolution_order (dec_ids i) (dec_ids sc)))
  | 203, [c; i; sc] => enc_uids (find_fqn (dec_containers c) (dec_ids i) (dec_ids sc))
  | 204, [c; i] => enc_uids (find_any (dec_containers c) (dec_ids i))
  | 205, [i] => SL [enc_str (ids_dotted (dec_ids i)); enc_str (ids_colons (dec_ids i))]
  | 206, [tr; m] => SL [enc_ids (tree_fqn (dec_list dec_ids tr)); enc_ids (fqn_member_name (dec_list dec_ids tr) (dec_ids m))]
  | 207, [l] => enc_ids (ids_sum (dec_list dec_ids l))
  | 208, [c; SL qs] =>
      let cs := dec_containers c in
      SL (map (fun q => match q with SL [i; sc] => enc_uids (find_fqn cs (dec_ids i) (dec_ids sc)) | _ => SL [] end) qs)
  | 209, [c; SL qs] =>
      let cs := dec_containers c in SL (map (fun q => enc_uids (find_any cs (dec_ids q))) qs)
  | 210, [SL qs] =>
      SL (map (fun q => match q with SL [i; sc] => SL (map enc_ids (scope_resolution_order (dec_ids i) (dec_ids sc))) | _ => SL [] end) qs)
  | _, _ => SL [SI (-1)]
  end.
