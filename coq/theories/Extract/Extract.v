(* Extraction of the executable model. Only ExtrOcamlBasic: bool, option, unit, list, prod,
   sumbool, sumor map to OCaml built-ins; nat, positive, N, Z stay the extracted Coq datatypes. *)
From Coq Require Import ExtrOcamlBasic.
From Dznpy Require Import Base.Sexp Run.Dispatch.
Extraction Language OCaml.
Extraction "model.ml" Dispatch.dispatch.
