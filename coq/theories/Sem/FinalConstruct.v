(* Semantics of the emitted FinalConstruct(): which ports' check_bindings() run, over the slot state; and of the
   facilities part of the constructor (FacilitiesCheck, locator, member initialisation order). *)
From Coq Require Import List NArith Bool String.
From Dznpy Require Import Base.PyStr Base.Result Model.TextGen Model.Scoping Model.PortSelection Model.CppGen Model.Ast
  Model.SupportFiles Sem.ShellSem Sem.Exec Model.Builder.
Import ListNotations.

Definition all_events (p : cppport) : list (evd * event) :=
  map (fun e => (DIn, e)) (events_of EIn p) ++ map (fun e => (DOut, e)) (events_of EOut p).

Definition is_set (h : handler) : bool := match h with Unset => false | _ => true end.

(* <port>.check_bindings(): every event slot of the port object must hold something (a std::ref counts) *)
Definition bound (m : slots) (o : obj) (p : cppport) : bool :=
  forallb (fun de => is_set (lookup m (sl o (fst de) (snd de)))) (all_events p).

Definition acc_obj (p : cppport) : obj := if cp_is_mts p then Bnd (cp_name p) else Enc (cp_name p).

(* the objects FinalConstruct() checks, in the order create_final_construct_fn emits the calls:
   FinalConstruct() of each multi-client selector (= every registered client port), check_bindings() of the accessor
   target of every other provides port and of every requires port, then the encapsulee's own check_bindings() *)
Definition fc_checks (pp rp : list cppport) (clients : list str) : list (obj * cppport) :=
  flat_map (fun p => if cp_is_mc p then map (fun c => (Cli (cp_name p) c, p)) clients else []) pp ++
  flat_map (fun p => if cp_is_mc p then [] else [(acc_obj p, p)]) pp ++
  map (fun p => (acc_obj p, p)) rp ++
  map (fun p => (Enc (cp_name p), p)) (pp ++ rp).

Definition final_construct (m : slots) (pp rp : list cppport) (clients : list str) : bool :=
  forallb (fun op => bound m (fst op) (snd op)) (fc_checks pp rp clients).

(* The emitted body runs in this order: FinalConstruct()/check_bindings() of the boundary objects (a failure throws), then
   `m_encapsulee.dzn_meta.parent = parentComponentMeta;`, then the encapsulee's own check_bindings() (a failure throws).
   [final_construct_run] returns whether the call returns normally and the parent recorded afterwards. *)
Definition fc_boundary (pp rp : list cppport) (clients : list str) : list (obj * cppport) :=
  flat_map (fun p => if cp_is_mc p then map (fun c => (Cli (cp_name p) c, p)) clients else []) pp ++
  flat_map (fun p => if cp_is_mc p then [] else [(acc_obj p, p)]) pp ++
  map (fun p => (acc_obj p, p)) rp.
Definition fc_own (pp rp : list cppport) : list (obj * cppport) := map (fun p => (Enc (cp_name p), p)) (pp ++ rp).

Definition final_construct_run (m : slots) (recorded given : option N) (pp rp : list cppport) (clients : list str) : bool * option N :=
  if forallb (fun op => bound m (fst op) (snd op)) (fc_boundary pp rp clients)
  then (forallb (fun op => bound m (fst op) (snd op)) (fc_own pp rp), given)
  else (false, recorded).

(* ---------- facilities ---------- *)

Inductive service := SPump | SRuntime | SOther (n : N).
Definition service_eqb (a b : service) : bool :=
  match a, b with SPump, SPump | SRuntime, SRuntime => true | SOther x, SOther y => N.eqb x y | _, _ => false end.
Definition locator := list (service * N).     (* service kind -> identity of the object it refers to *)
Fixpoint loc_get (l : locator) (s : service) : option N :=
  match l with [] => None | (k, v) :: t => if service_eqb k s then Some v else loc_get t s end.
Definition loc_set (l : locator) (s : service) (i : N) : locator := (s, i) :: filter (fun kv => negb (service_eqb (fst kv) s)) l.

Definition is_set_opt {A} (x : option A) : bool := match x with Some _ => true | None => false end.

Inductive construction :=
| Throws
| Constructed (component_locator : locator) (component_got_users_locator_object : bool) (dispatcher : N) (locator_accessor : bool).

(* the constructor of the generated shell as far as facilities go; own_pump / own_runtime are the identities of the
   shell's own members *)
Definition construct (o : origin) (users : locator) (own_pump own_runtime : N) : construction :=
  match o with
  | OCreate =>
    (* FacilitiesCheck: overlapping dispatcher / runtime is a deployment error *)
    if is_set_opt (loc_get users SPump) || is_set_opt (loc_get users SRuntime) then Throws
    else Constructed (loc_set (loc_set users SRuntime own_runtime) SPump own_pump) false own_pump true
  | OImport =>
    match loc_get users SPump, loc_get users SRuntime with
    | Some p, Some _ => Constructed users true p false
    | _, _ => Throws
    end
  end.

(* member declaration order of the generated struct (private section) and what each mem-initialiser refers to *)
Definition declared_members (o : origin) (pp rp : list cppport) : list str :=
  (match o with OCreate => [L "m_runtime"; L "m_dispatcher"; L "m_locator"] | OImport => [L "m_dispatcher"] end) ++
  [L "m_encapsulee"] ++
  flat_map (fun p => match cp_member p with Some m => if cp_is_mc p then [] else [snd m] | None => [] end) pp ++
  flat_map (fun p => match cp_member p with Some m => if cp_is_mc p then [snd m] else [] | None => [] end) pp ++
  flat_map (fun p => match cp_member p with Some m => [snd m] | None => [] end) rp.

Definition initialiser_deps (o : origin) (pp rp : list cppport) : list (str * list str) :=
  (match o with
   | OCreate => [(L "m_locator", [L "m_runtime"; L "m_dispatcher"]); (L "m_encapsulee", [L "m_locator"])]
   | OImport => [(L "m_dispatcher", []); (L "m_encapsulee", [])]
   end) ++
  flat_map (fun p => match cp_member p with
                     | Some m => if cp_is_mts p then [(snd m, if cp_is_mc p then [] else [L "m_encapsulee"])] else []
                     | None => [] end) (pp ++ rp).

Fixpoint index_of (x : str) (l : list str) : option nat :=
  match l with [] => None | y :: t => if str_eqb y x then Some O else option_map S (index_of x t) end.
