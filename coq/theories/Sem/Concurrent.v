(* Interleaving semantics of the generated multi-client support under several client threads and the dispatcher thread.
   Atomic steps:
     LStart c   client thread c posts the closure for its next operation through dzn::shell and blocks
     LDisp      the dispatcher thread runs the head closure in the component (claim / release / use)
     LLock t    thread t acquires the MutexWrapped lock (std::unique_lock inside operator())
     LFinish c  client c, back from the forwarded call and holding the lock when needed, performs Select / Deselect
                and drops the lock (unique_ptr with RaiiLockDeleter goes out of scope)
     LOut       the dispatcher thread, holding the lock, reads the selection, delivers the out-event, drops the lock
   The component is a conformant arbiter: it grants a claim iff nobody has claimed. *)
From Coq Require Import List NArith Bool Lia Arith.
Import ListNotations.

Definition cid := nat.
Inductive cop := OClaim | ORelease | OUse.

Inductive pc :=
| Ready
| Blocked (o : cop)                  (* closure posted, waiting for the dispatcher *)
| Replied (o : cop) (granted : bool) (* forwarded call returned on the client thread; Select/Deselect still to do *)
| Locked (o : cop) (granted : bool). (* holds the mutex, about to Select/Deselect *)
Record client := { prog : list cop; at_ : pc }.

Inductive tid := TClient (c : cid) | TDispatcher.

Record st := {
  clients : list client;
  queue : list (cid * cop);
  claimed : bool;                 (* the component's own protocol state *)
  selected : option cid;          (* MultiClientSelector::m_clientSelect *)
  mutex : option tid;             (* who holds MutexWrapped's mutex *)
  out_pending : bool;             (* the dispatcher is inside an out-event lambda, holding the lock *)
  delivered : list (option cid) }.

Inductive label := LStart (c : cid) | LDisp | LLock (t : tid) | LFinish (c : cid) | LOut.

Fixpoint upd {A} (l : list A) (i : nat) (x : A) : list A :=
  match l, i with
  | [], _ => []
  | _ :: t, O => x :: t
  | a :: t, S i => a :: upd t i x
  end.

Definition needs_lock (o : cop) (granted : bool) : bool :=
  match o with OClaim => granted | ORelease => true | OUse => false end.

Definition set_clients s cl := {| clients := cl; queue := queue s; claimed := claimed s; selected := selected s; mutex := mutex s;
                                   out_pending := out_pending s; delivered := delivered s |}.

Definition step (s : st) (l : label) : option st :=
  match l with
  | LStart c =>
    match nth_error (clients s) c with
    | Some {| prog := o :: rest; at_ := Ready |} =>
      Some {| clients := upd (clients s) c {| prog := rest; at_ := Blocked o |}; queue := queue s ++ [(c, o)]; claimed := claimed s;
              selected := selected s; mutex := mutex s; out_pending := out_pending s; delivered := delivered s |}
    | _ => None
    end
  | LDisp =>
    if out_pending s then None else      (* the dispatcher thread is busy inside an out-event lambda *)
    match queue s with
    | (c, o) :: q =>
      let '(granted, claimed') :=
        match o with
        | OClaim => if claimed s then (false, true) else (true, true)
        | ORelease => (false, false)
        | OUse => (false, claimed s)
        end in
      match nth_error (clients s) c with
      | Some cl => Some {| clients := upd (clients s) c {| prog := prog cl; at_ := Replied o granted |}; queue := q; claimed := claimed';
                           selected := selected s; mutex := mutex s; out_pending := out_pending s; delivered := delivered s |}
      | None => None
      end
    | [] => None
    end
  | LLock (TClient c) =>
    match mutex s, nth_error (clients s) c with
    | None, Some {| prog := p; at_ := Replied o g |} =>
      if needs_lock o g
      then Some {| clients := upd (clients s) c {| prog := p; at_ := Locked o g |}; queue := queue s; claimed := claimed s;
                   selected := selected s; mutex := Some (TClient c); out_pending := out_pending s; delivered := delivered s |}
      else None
    | _, _ => None
    end
  | LLock TDispatcher =>
    match mutex s with
    | None => if out_pending s then None
              else Some {| clients := clients s; queue := queue s; claimed := claimed s; selected := selected s;
                           mutex := Some TDispatcher; out_pending := true; delivered := delivered s |}
    | Some _ => None
    end
  | LFinish c =>
    match nth_error (clients s) c with
    | Some {| prog := p; at_ := Locked o g |} =>
      let sel := match o with OClaim => Some c | ORelease => None | OUse => selected s end in
      Some {| clients := upd (clients s) c {| prog := p; at_ := Ready |}; queue := queue s; claimed := claimed s;
              selected := sel; mutex := None; out_pending := out_pending s; delivered := delivered s |}
    | Some {| prog := p; at_ := Replied o g |} =>
      if needs_lock o g then None
      else Some {| clients := upd (clients s) c {| prog := p; at_ := Ready |}; queue := queue s; claimed := claimed s;
                   selected := selected s; mutex := mutex s; out_pending := out_pending s; delivered := delivered s |}
    | _ => None
    end
  | LOut =>
    match mutex s with
    | Some TDispatcher =>
      Some {| clients := clients s; queue := queue s; claimed := claimed s; selected := selected s; mutex := None;
              out_pending := false; delivered := delivered s ++ [selected s] |}
    | _ => None
    end
  end.

Fixpoint run (s : st) (ls : list label) : option st :=
  match ls with [] => Some s | l :: t => match step s l with Some s' => run s' t | None => None end end.

Definition init (progs : list (list cop)) : st :=
  {| clients := map (fun p => {| prog := p; at_ := Ready |}) progs; queue := []; claimed := false; selected := None;
     mutex := None; out_pending := false; delivered := [] |}.

(* a client thread that has executed its whole program *)
Definition finished (c : client) : bool := match c with {| prog := []; at_ := Ready |} => true | _ => false end.

(* ---------- observations, enabled steps, schedule generators (used by the harness to drive the compiled shell) ---------- *)

Inductive obs := ODisp (c : cid) (o : cop) (g : bool) | ODeliver (to : option cid).

Definition observe (s : st) (l : label) : list obs :=
  match l with
  | LDisp => match queue s with
             | (c, o) :: _ => [ODisp c o (match o with OClaim => negb (claimed s) | _ => false end)]
             | [] => []
             end
  | LOut => [ODeliver (selected s)]
  | _ => []
  end.

Fixpoint run_trace (s : st) (ls : list label) : option (list obs * st) :=
  match ls with
  | [] => Some ([], s)
  | l :: t => match step s l with
              | Some s' => match run_trace s' t with Some (os, s'') => Some (observe s l ++ os, s'') | None => None end
              | None => None
              end
  end.

Definition candidates (s : st) : list label :=
  [LDisp; LLock TDispatcher; LOut] ++ flat_map (fun c => [LStart c; LLock (TClient c); LFinish c]) (seq 0 (length (clients s))).

Definition is_some {A} (o : option A) : bool := match o with Some _ => true | None => false end.

(* [outs]: how many more out-events the environment may raise *)
Definition enabled (outs : nat) (s : st) : list label :=
  filter (fun l => match l with LLock TDispatcher => Nat.ltb 0 outs | _ => true end && is_some (step s l)) (candidates s).

Definition spend (outs : nat) (l : label) : nat := match l with LLock TDispatcher => outs - 1 | _ => outs end.

(* a schedule picked by a list of random numbers *)
Fixpoint sample (rs : list nat) (outs : nat) (s : st) : list label :=
  match rs with
  | [] => []
  | r :: rs' =>
    match enabled outs s with
    | [] => []
    | l0 :: en' =>
      let l := nth (r mod (S (length en'))) (l0 :: en') l0 in
      match step s l with
      | Some s' => l :: sample rs' (spend outs l) s'
      | None => []
      end
    end
  end.

(* every maximal schedule, depth-first, at most [fuel] steps long *)
Fixpoint all_schedules (fuel : nat) (outs : nat) (s : st) : list (list label) :=
  match fuel with
  | O => [[]]
  | S f =>
    match enabled outs s with
    | [] => [[]]
    | en => flat_map (fun l => match step s l with
                               | Some s' => map (cons l) (all_schedules f (spend outs l) s')
                               | None => []
                               end) en
    end
  end.

(* coarse moves: the lock is taken and dropped without anything in between (what a replay on real threads can control) *)
Inductive move := MStart (c : cid) | MDisp | MSel (c : cid) | MOut.
Definition expand (m : move) (s : st) : list label :=
  match m with
  | MStart c => [LStart c]
  | MDisp => [LDisp]
  | MSel c => match nth_error (clients s) c with
              | Some {| at_ := Replied o g |} => if needs_lock o g then [LLock (TClient c); LFinish c] else [LFinish c]
              | _ => [LFinish c]
              end
  | MOut => [LLock TDispatcher; LOut]
  end.
Definition moves (outs : nat) (s : st) : list move :=
  filter (fun m => match m with MOut => Nat.ltb 0 outs | _ => true end && is_some (run s (expand m s)))
         ([MDisp; MOut] ++ flat_map (fun c => [MStart c; MSel c]) (seq 0 (length (clients s)))).
Fixpoint all_coarse (fuel : nat) (outs : nat) (s : st) : list (list label) :=
  match fuel with
  | O => [[]]
  | S f =>
    match moves outs s with
    | [] => [[]]
    | ms => flat_map (fun m => match run s (expand m s) with
                               | Some s' => map (app (expand m s)) (all_coarse f (match m with MOut => outs - 1 | _ => outs end) s')
                               | None => []
                               end) ms
    end
  end.
