(* Semantics of the C++ fragment the advanced-shell generator emits: ports as records of late-bound std::function
   slots, std::ref, the forwarding lambdas, dispatcher (dzn::shell blocks and runs in dispatcher context, dzn::pump
   queues), native handlers. The builder model renders exactly these statements (Model/Builder.v uses `render_stmt`),
   so the byte-exact correspondence check ties the statements to what /repo emits. *)
From Coq Require Import List NArith Bool String.
From Dznpy Require Import Base.PyStr.
Import ListNotations.


Inductive obj :=
| Enc (p : str)            (* m_encapsulee.<p> : the wrapped component's own port *)
| Bnd (p : str)            (* m_pp<P> / m_rp<P> : boundary port owned by the shell *)
| Arb (p : str)            (* m_pp<P>() : the arbitered port inside the MultiClientSelector *)
| Cli (p c : str).         (* the port of registered client c *)
Inductive evd := DIn | DOut.
Record slot := { s_obj : obj; s_dir : evd; s_ev : str }.

Record cparam := { cp_type : str; cp_by_ref : bool; cp_pname : str }.

Inductive handler :=
| Unset
| Native (who : str)
| Ref (s : slot)
| ShellFwd (params : list cparam) (caps : list str) (target : slot) (args : list str)
| PostFwd (params : list cparam) (caps : list str) (target : slot) (args : list str).

Inductive stmt :=
| Assign (s : slot) (h : handler)
| CopyPort (dst src : obj).      (* member initialiser m_ppX(m_encapsulee.x): copies every slot *)

(* ---------- how the statements are spelled (this is the text the generator emits) ---------- *)

Record spelling := { sp_dispatcher : str; sp_member : str -> str (* boundary member of port p *) }.

Definition obj_text (sp : spelling) (o : obj) : str :=
  match o with
  | Enc p => L "m_encapsulee." ++ p
  | Bnd p => sp_member sp p
  | Arb p => sp_member sp p ++ L "()"
  | Cli _ _ => L "port"
  end.
Definition dir_text (d : evd) : str := match d with DIn => L ".in." | DOut => L ".out." end.
Definition slot_text (sp : spelling) (s : slot) : str := obj_text sp (s_obj s) ++ dir_text (s_dir s) ++ s_ev s.

Definition cparam_text (p : cparam) : str := cp_type p ++ (if cp_by_ref p then L "&" else []) ++ L " " ++ cp_pname p.
Definition paren_params (ps : list cparam) : str :=
  match ps with [] => [] | _ => L "(" ++ join (L ", ") (map cparam_text ps) ++ L ")" end.
Definition caps_text (caps : list str) : str := List.concat (map (fun c => L ", " ++ c) caps).

Definition render_stmt (sp : spelling) (st : stmt) : str :=
  match st with
  | Assign s (ShellFwd ps caps tgt args) =>
      slot_text sp s ++ L " = [&]" ++ paren_params ps ++ L " {" ++ [LF] ++
      L "    return dzn::shell(" ++ sp_dispatcher sp ++ L ", [&" ++ caps_text caps ++ L "] { return " ++ slot_text sp tgt ++
      L "(" ++ join (L ", ") args ++ L "); });" ++ [LF] ++ L "};"
  | Assign s (PostFwd ps caps tgt args) =>
      slot_text sp s ++ L " = [&]" ++ paren_params ps ++ L " {" ++ [LF] ++
      L "    return " ++ sp_dispatcher sp ++ L "([&" ++ caps_text caps ++ L "] { return " ++ slot_text sp tgt ++
      L "(" ++ join (L ", ") args ++ L "); });" ++ [LF] ++ L "};"
  | Assign s (Ref t) => slot_text sp s ++ L " = std::ref(" ++ slot_text sp t ++ L ");"
  | Assign s _ => slot_text sp s ++ L " = {};"
  | CopyPort d src => obj_text sp d ++ L "(" ++ obj_text sp src ++ L ")"
  end.
