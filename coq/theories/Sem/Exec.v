(* Execution semantics of the constructor statements and of calls through the slots. *)
From Coq Require Import List NArith Bool String Lia Arith.
From Dznpy Require Import Base.PyStr Sem.ShellSem.
Import ListNotations.

Definition evd_eqb (a b : evd) : bool := match a, b with DIn, DIn | DOut, DOut => true | _, _ => false end.
Definition obj_eqb (a b : obj) : bool :=
  match a, b with
  | Enc p, Enc q | Bnd p, Bnd q | Arb p, Arb q => str_eqb p q
  | Cli p c, Cli q d => str_eqb p q && str_eqb c d
  | _, _ => false
  end.
Definition slot_eqb (a b : slot) : bool := obj_eqb (s_obj a) (s_obj b) && evd_eqb (s_dir a) (s_dir b) && str_eqb (s_ev a) (s_ev b).

Definition slots := list (slot * handler).
Fixpoint lookup (m : slots) (s : slot) : handler :=
  match m with [] => Unset | (k, h) :: t => if slot_eqb k s then h else lookup t s end.
Definition assign (m : slots) (s : slot) (h : handler) : slots := (s, h) :: m.

(* member initialiser dst(src): dst gets a copy of every slot src has at that moment *)
Definition copy_port (m : slots) (dst src : obj) : slots :=
  flat_map (fun kv => if obj_eqb (s_obj (fst kv)) src
                      then [({| s_obj := dst; s_dir := s_dir (fst kv); s_ev := s_ev (fst kv) |}, snd kv)] else []) m ++ m.

Definition exec_stmt (m : slots) (st : stmt) : slots :=
  match st with Assign s h => assign m s h | CopyPort d src => copy_port m d src end.
Definition exec (l : list stmt) (m : slots) : slots := fold_left exec_stmt l m.

(* ---------- calls ---------- *)

Definition value := N.
Inductive ctx := Caller | Dispatcher.
Record rec := { r_who : str; r_slot : slot; r_args : list value; r_ctx : ctx }.
Record closure := { c_target : slot; c_env : list (str * value); c_args : list str; c_caps : list str }.
Record world := { w_slots : slots; w_queue : list closure; w_trace : list rec }.

(* a native handler records the call and answers with a reply and new values for all arguments
   (the script decides; in-arguments are returned unchanged by a well-behaved script) *)
Definition script := slot -> list value -> value * list value.

Inductive outcome :=
| Done (reply : value) (finals : list value)   (* finals: the values of the caller's arguments after the call *)
| Unbound (s : slot) | BadArgs | Dangling (name : str) | OutOfFuel.

Fixpoint bind_params (ps : list str) (vs : list value) : list (str * value) :=
  match ps, vs with p :: ps', v :: vs' => (p, v) :: bind_params ps' vs' | _, _ => [] end.
Fixpoint env_get (e : list (str * value)) (x : str) : option value :=
  match e with [] => None | (k, v) :: t => if str_eqb k x then Some v else env_get t x end.
Fixpoint eval_args (e : list (str * value)) (xs : list str) : option (list value) :=
  match xs with
  | [] => Some []
  | x :: t => match env_get e x, eval_args e t with Some v, Some vs => Some (v :: vs) | _, _ => None end
  end.

(* after a forwarded call: by-reference parameters see the callee's final value, by-value parameters keep the caller's *)
Fixpoint write_back (caps : list str) (ps : list cparam) (orig finals : list value) : list value :=
  match ps, orig, finals with
  | p :: ps', o :: os, f :: fs =>
    (* the callee's write reaches the caller iff the outer parameter is a reference AND the inner lambda did not take a copy *)
    (if cp_by_ref p && negb (existsb (str_eqb (cp_pname p)) caps) then f else o) :: write_back caps ps' os fs
  | _, _, _ => []
  end.

Section Call.
Variable sc : script.

Fixpoint call (fuel : nat) (w : world) (s : slot) (vs : list value) (c : ctx) : world * outcome :=
  match fuel with
  | O => (w, OutOfFuel)
  | S f =>
    match lookup (w_slots w) s with
    | Unset => (w, Unbound s)
    | Native who =>
      let r := sc s vs in
      ({| w_slots := w_slots w; w_queue := w_queue w;
          w_trace := w_trace w ++ [{| r_who := who; r_slot := s; r_args := vs; r_ctx := c |}] |}, Done (fst r) (snd r))
    | Ref s' => call f w s' vs c
    | ShellFwd ps caps tgt args =>
      if negb (Nat.eqb (List.length ps) (List.length vs)) then (w, BadArgs)
      else match eval_args (bind_params (map cp_pname ps) vs) args with
           | None => (w, BadArgs)
           | Some vs' =>
             match call f w tgt vs' Dispatcher with       (* dzn::shell: runs in dispatcher context, caller blocked *)
             | (w', Done reply finals) =>
               (* the inner lambda captured everything it passes on by reference ([&]) or, for in-parameters, by value:
                  the callee's writes reach the outer lambda's parameters, which are references iff declared with & *)
               match eval_args (bind_params args finals) (map cp_pname ps) with
               | Some finals' => (w', Done reply (write_back caps ps vs finals'))
               | None => (w', BadArgs)
               end
             | other => other
             end
           end
    | PostFwd ps caps tgt args =>
      if negb (Nat.eqb (List.length ps) (List.length vs)) then (w, BadArgs)
      else ({| w_slots := w_slots w;
               w_queue := w_queue w ++ [{| c_target := tgt; c_env := bind_params (map cp_pname ps) vs; c_args := args; c_caps := caps |}];
               w_trace := w_trace w |}, Done 0%N vs)           (* returns at once; nothing has run yet *)
    end
  end.

(* the dispatcher runs one queued closure: the poster's frame is gone, so only by-value captures can be read *)
Definition run_closure (fuel : nat) (w : world) (cl : closure) : world * outcome :=
  match find (fun a => negb (existsb (str_eqb a) (c_caps cl))) (c_args cl) with
  | Some a => (w, Dangling a)
  | None => match eval_args (c_env cl) (c_args cl) with
            | Some vs => call fuel w (c_target cl) vs Dispatcher
            | None => (w, BadArgs)
            end
  end.

Definition run_head (fuel : nat) (w : world) : world * outcome :=
  match w_queue w with
  | [] => (w, Done 0%N [])
  | cl :: q => run_closure fuel {| w_slots := w_slots w; w_queue := q; w_trace := w_trace w |} cl
  end.
End Call.
