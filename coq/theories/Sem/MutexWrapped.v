(* Semantics of the MutexWrapped<T> support header: one std::mutex, the protected value, and per thread at most one
   `auto lockAndData = wrapped();` variable, i.e. a std::unique_ptr<T, RaiiLockDeleter> whose deleter owns a std::unique_lock.
     operator()            std::unique_lock lock(m_mutex);                     blocks until the mutex is free
                           return unique_ptr(&m_protectee, RaiiLockDeleter{std::move(lock)});
                                                                               the moved-from local lock owns nothing
     deleter(p)            if (lock.owns_lock()) lock.unlock();
     unique_ptr::reset()   old = ptr; ptr = nullptr; if (old) deleter(old);
     ~unique_ptr           if (ptr) deleter(ptr);  then ~RaiiLockDeleter -> ~unique_lock: if (owns) unlock
     *lockAndData          undefined when ptr == nullptr: not a step of the model *)
From Coq Require Import List NArith Bool Lia Arith.
Import ListNotations.

Record handle := { ptr : bool; owns : bool }.
Record mw := { mholder : option nat; vars : list (option handle); value : nat }.

Inductive mop := MAcquire (t : nat) | MReset (t : nat) | MExit (t : nat) | MWrite (t : nat) (v : nat) | MRead (t : nat).

Fixpoint set_nth {A} (l : list A) (i : nat) (x : A) : list A :=
  match l, i with
  | [], _ => []
  | _ :: r, O => x :: r
  | a :: r, S i => a :: set_nth r i x
  end.

Definition var_of (m : mw) (t : nat) : option handle := match nth_error (vars m) t with Some v => v | None => None end.

(* the deleter: unlock iff the unique_lock it carries owns the mutex *)
Definition deleter (m : mw) (h : handle) : option nat * handle :=
  if owns h then (None, {| ptr := ptr h; owns := false |}) else (mholder m, h).

Definition mstep (m : mw) (o : mop) : option (mw * option nat) :=
  match o with
  | MAcquire t =>
    match nth_error (vars m) t, mholder m with
    | Some None, None => Some ({| mholder := Some t; vars := set_nth (vars m) t (Some {| ptr := true; owns := true |}); value := value m |}, None)
    | _, _ => None                                          (* mutex taken: the thread blocks; a second variable in the same thread is not modelled *)
    end
  | MReset t =>
    match var_of m t with
    | Some h =>
      if ptr h then let '(hd, h') := deleter m h in
                    Some ({| mholder := hd; vars := set_nth (vars m) t (Some {| ptr := false; owns := owns h' |}); value := value m |}, None)
      else Some (m, None)
    | None => None
    end
  | MExit t =>
    match var_of m t with
    | Some h =>
      let '(hd, h') := if ptr h then deleter m h else (mholder m, h) in
      let hd' := if owns h' then None else hd in            (* ~unique_lock *)
      Some ({| mholder := hd'; vars := set_nth (vars m) t None; value := value m |}, None)
    | None => None
    end
  | MWrite t v =>
    match var_of m t with
    | Some h => if ptr h then Some ({| mholder := mholder m; vars := vars m; value := v |}, None) else None
    | None => None
    end
  | MRead t =>
    match var_of m t with
    | Some h => if ptr h then Some (m, Some (value m)) else None
    | None => None
    end
  end.

Definition minit (threads : nat) : mw := {| mholder := None; vars := repeat None threads; value := 0 |}.

Definition held (m : mw) : bool := match mholder m with Some _ => true | None => false end.

(* run a history; per operation: Some result when it could be executed, None (and the state unchanged) when the thread would
   block / the operation is undefined; plus whether the mutex is held afterwards *)
Fixpoint mrun (m : mw) (ops : list mop) : list (option (option nat) * bool) * mw :=
  match ops with
  | [] => ([], m)
  | o :: r => match mstep m o with
              | Some (m', res) => let '(l, mf) := mrun m' r in ((Some res, held m') :: l, mf)
              | None => let '(l, mf) := mrun m r in ((None, held m) :: l, mf)
              end
  end.
